(* Technique R: a finite inductive invariant over (reference state, lexer flags, LR stack), checked by
   computation and lifted to lexeme sequences of ANY length by induction.

   letters   : what a lexeme looks like to the lexer (for a t_ID word: its [info]);
   mstep     : the REAL machine on one letter: token function (flags) + LR driver on the given tables;
   fstep     : a hand-written reference Mealy machine for a fragment, prescribing token type, value
               treatment and the productions reduced before the shift (by their text "lhs -> rhs");
   closed R  : every configuration in R steps, for every letter the reference accepts, to a configuration
               in R with exactly the prescribed output (and likewise at end of input);
   closed_sound : closed R -> every word of the reference language, of any length, is processed by
               the real machine exactly as prescribed.
   The second half connects the letter-level machine with the concrete pipeline of Model/Parse.v. *)
From Coq Require Import String Ascii List ZArith NArith PArith Bool Lia.
From SDP Require Import Base PyStr LR Lexer Actions Parse.
Import ListNotations.
Open Scope list_scope.

(* ---------- letters ------------------------------------------------------------------------- *)
Inductive letter :=
| LWord (i : info)          (* a t_ID lexeme without trailing comma whose info is i *)
| LDot | LEq | LStr | LDq.  (* t_DOT, t_EQ, t_STRING_BASE, t_DQ_STRING lexemes *)

Definition lclass (l : letter) (f : flags) : (string * vtag) * flags :=
  match l with
  | LWord i => t_id_core f i
  | LDot => (("DOT", Keep), set_last_token f "DOT")
  | LEq => (("EQ", Keep), set_last_token f "EQ")
  | LStr => (("STRING_BASE", Keep), set_last_token f "STRING_BASE")
  | LDq => (("DQ_STRING", Keep), set_last_token f "DQ_STRING")
  end%string.

Definition matches (lx : lexeme) (l : letter) : Prop :=
  match l with
  | LWord i => fst lx = "t_ID"%string /\ strip_trailing_comma (snd lx) = snd lx /\ info_of (snd lx) = i
  | LDot => fst lx = "t_DOT"%string
  | LEq => fst lx = "t_EQ"%string
  | LStr => fst lx = "t_STRING_BASE"%string
  | LDq => fst lx = "t_DQ_STRING"%string
  end.

Lemma classify_matches f lx l :
  matches lx l ->
  classify f lx = Ok ((fst (fst (lclass l f)), apply_vtag (snd (fst (lclass l f))) (snd lx)), snd (lclass l f)).
Proof.
  destruct lx as [rule text]. destruct l as [i| | | |]; simpl; intro H.
  - destruct H as [-> [Hs Hi]]. unfold classify. simpl. rewrite Hs, Hi.
    destruct (t_id_core f i) as [[ty vt] f']. reflexivity.
  - subst rule. reflexivity.
  - subst rule. reflexivity.
  - subst rule. reflexivity.
  - subst rule. reflexivity.
Qed.

(* ---------- small decidable equalities -------------------------------------------------------- *)
Fixpoint strs_eqb (a b : list string) : bool :=
  match a, b with
  | [], [] => true
  | x :: r, y :: s => String.eqb x y && strs_eqb r s
  | _, _ => false
  end.
Lemma strs_eqb_eq a b : strs_eqb a b = true -> a = b.
Proof.
  revert b; induction a as [|x r IH]; intros [|y s] H; simpl in H; try discriminate; [reflexivity|].
  apply andb_true_iff in H. destruct H as [H1 H2]. apply String.eqb_eq in H1. f_equal; auto.
Qed.
Definition vtag_eqb (a b : vtag) : bool :=
  match a, b with Keep, Keep | Upper, Upper => true | _, _ => false end.
Lemma vtag_eqb_eq a b : vtag_eqb a b = true -> a = b.
Proof. destruct a, b; simpl; congruence. Qed.

Fixpoint ns_eqb (a b : list N) : bool :=
  match a, b with
  | [], [] => true
  | x :: r, y :: s => N.eqb x y && ns_eqb r s
  | _, _ => false
  end.
Lemma ns_eqb_eq a b : ns_eqb a b = true -> a = b.
Proof.
  revert b; induction a as [|x r IH]; intros [|y s] H; simpl in H; try discriminate; [reflexivity|].
  apply andb_true_iff in H. destruct H as [H1 H2]. apply N.eqb_eq in H1. f_equal; auto.
Qed.

Definition flags_eqb (a b : flags) : bool :=
  Bool.eqb (is_table a) (is_table b) && Bool.eqb (sequence a) (sequence b)
  && String.eqb (last_token a) (last_token b) && Bool.eqb (columns_def a) (columns_def b)
  && Bool.eqb (after_columns a) (after_columns b) && Bool.eqb (check a) (check b)
  && String.eqb (last_par a) (last_par b) && N.eqb (lp_open a) (lp_open b)
  && Bool.eqb (is_alter a) (is_alter b) && Bool.eqb (is_like a) (is_like b) && Z.eqb (lt_open a) (lt_open b).
Lemma flags_eqb_eq a b : flags_eqb a b = true -> a = b.
Proof.
  unfold flags_eqb. intro H. repeat (apply andb_true_iff in H; destruct H as [H ?]).
  destruct a, b; simpl in *.
  repeat match goal with
         | [ X : Bool.eqb _ _ = true |- _ ] => apply Bool.eqb_prop in X
         | [ X : String.eqb _ _ = true |- _ ] => apply String.eqb_eq in X
         | [ X : N.eqb _ _ = true |- _ ] => apply N.eqb_eq in X
         | [ X : Z.eqb _ _ = true |- _ ] => apply Z.eqb_eq in X
         end.
  subst. reflexivity.
Qed.

Definition conf := (flags * list N)%type.
Definition conf_eqb (a b : conf) : bool := flags_eqb (fst a) (fst b) && ns_eqb (snd a) (snd b).
Lemma conf_eqb_eq a b : conf_eqb a b = true -> a = b.
Proof.
  destruct a, b; unfold conf_eqb; simpl. intro H. apply andb_true_iff in H. destruct H as [H1 H2].
  apply flags_eqb_eq in H1. apply ns_eqb_eq in H2. congruence.
Qed.

(* ---------- outputs --------------------------------------------------------------------------- *)
(* per letter: the events feed produced (reductions, newest first), token id, type, value treatment *)
Definition mout := (list event * positive * string * vtag)%type.
(* the reference machine names productions by their text, oldest first *)
Definition fout := (list string * string * vtag)%type.

Definition reduces_of (evs : list event) : list N :=
  flat_map (fun e => match e with EReduce p => [p] | _ => [] end) evs.

Section Machine.
  Variable T : tables.
  Variable tid : string -> option positive.        (* terminal name -> id *)
  Variable pname : N -> option string.             (* production number -> text *)

  Definition mstep (c : conf) (l : letter) : option (mout * conf) :=
    let '((ty, vt), f') := lclass l (fst c) in
    match tid ty with
    | None => None
    | Some t =>
      match feed feed_fuel T (snd c) t [] with
      | Ok (FShift st' acc) => Some ((acc, t, ty, vt), (f', st'))
      | _ => None
      end
    end.

  Definition mfinish (c : conf) : option (list event) :=
    match feed feed_fuel T (snd c) (t_end T) [] with
    | Ok (FAccept acc) => Some acc
    | _ => None
    end.

  Fixpoint mrun (c : conf) (ls : list letter) : option (list mout * conf) :=
    match ls with
    | [] => Some ([], c)
    | l :: r =>
      match mstep c l with
      | None => None
      | Some (o, c') => match mrun c' r with
                        | None => None
                        | Some (os, c'') => Some (o :: os, c'')
                        end
      end
    end.

  Definition nevent_eqb (a b : nevent) : bool :=
    match a, b with
    | NShift x, NShift y => String.eqb x y
    | NReduce x, NReduce y => String.eqb x y
    | NError, NError | NErrorEnd, NErrorEnd | NAccept, NAccept => true
    | _, _ => false
    end.
  Lemma nevent_eqb_eq a b : nevent_eqb a b = true -> a = b.
  Proof. destruct a, b; simpl; try congruence; intro H; apply String.eqb_eq in H; congruence. Qed.
  Fixpoint nevs_eqb (a b : list nevent) : bool :=
    match a, b with
    | [], [] => true
    | x :: r, y :: s => nevent_eqb x y && nevs_eqb r s
    | _, _ => false
    end.
  Lemma nevs_eqb_eq a b : nevs_eqb a b = true -> a = b.
  Proof.
    revert b; induction a as [|x r IH]; intros [|y s] H; simpl in H; try discriminate; [reflexivity|].
    apply andb_true_iff in H. destruct H as [H1 H2]. apply nevent_eqb_eq in H1. f_equal; auto.
  Qed.

  (* the named form of what feed emitted (oldest first) equals the prescribed reductions *)
  Definition acc_is (acc : list event) (ps : list string) : bool :=
    match name_events pname (rev acc) with
    | Ok ns => nevs_eqb ns (map NReduce ps)
    | _ => false
    end.
  Lemma acc_is_spec acc ps : acc_is acc ps = true -> name_events pname (rev acc) = Ok (map NReduce ps).
  Proof.
    unfold acc_is. destruct (name_events pname (rev acc)); try discriminate.
    intro H. apply nevs_eqb_eq in H. congruence.
  Qed.

  Definition out_agrees (o : fout) (m : mout) : bool :=
    let '(ps, ty, vt) := o in let '(acc, _, ty', vt') := m in
    acc_is acc ps && String.eqb ty ty' && vtag_eqb vt vt'.

  (* ---------- the reference machine and the closure check ----------------------------------- *)
  Variable Q : Type.
  Variable qeqb : Q -> Q -> bool.
  Hypothesis qeqb_eq : forall a b, qeqb a b = true -> a = b.
  Variable fstep : Q -> letter -> option (fout * Q).
  Variable ffinish : Q -> option (list string).
  Variable alphabet : list letter.

  Fixpoint frun (q : Q) (ls : list letter) : option (list fout * Q) :=
    match ls with
    | [] => Some ([], q)
    | l :: r =>
      match fstep q l with
      | None => None
      | Some (o, q') => match frun q' r with
                        | None => None
                        | Some (os, q'') => Some (o :: os, q'')
                        end
      end
    end.

  Definition in_R (R : list (Q * conf)) (q : Q) (c : conf) : bool :=
    existsb (fun qc => qeqb q (fst qc) && conf_eqb c (snd qc)) R.

  Lemma in_R_In R q c : in_R R q c = true -> In (q, c) R.
  Proof.
    unfold in_R. intro H. apply existsb_exists in H. destruct H as [[q' c'] [Hin H]]. simpl in H.
    apply andb_true_iff in H. destruct H as [H1 H2]. apply qeqb_eq in H1. apply conf_eqb_eq in H2.
    subst. exact Hin.
  Qed.

  Definition ok1 (R : list (Q * conf)) (qc : Q * conf) (l : letter) : bool :=
    match fstep (fst qc) l with
    | None => true
    | Some (o, q') =>
      match mstep (snd qc) l with
      | Some (m, c') => out_agrees o m && in_R R q' c'
      | None => false
      end
    end.

  Definition okfin (qc : Q * conf) : bool :=
    match ffinish (fst qc) with
    | None => true
    | Some ps =>
      match mfinish (snd qc) with
      | Some acc => acc_is acc ps
      | None => false
      end
    end.

  Definition closed (R : list (Q * conf)) : bool :=
    forallb (fun qc => forallb (ok1 R qc) alphabet && okfin qc) R.

  Fixpoint explore (fuel : nat) (work seen : list (Q * conf)) : list (Q * conf) :=
    match fuel with
    | O => seen
    | S f =>
      match work with
      | [] => seen
      | qc :: rest =>
        if in_R seen (fst qc) (snd qc) then explore f rest seen
        else
          let succs :=
              flat_map (fun l => match fstep (fst qc) l with
                                 | Some (_, q') => match mstep (snd qc) l with
                                                   | Some (_, c') => [(q', c')]
                                                   | None => []
                                                   end
                                 | None => []
                                 end) alphabet in
          explore f (succs ++ rest) (qc :: seen)
      end
    end.

  Theorem closed_sound : forall R, closed R = true ->
    forall ls q c, In (q, c) R -> Forall (fun l => In l alphabet) ls ->
    forall fos q', frun q ls = Some (fos, q') ->
    exists mos c', mrun c ls = Some (mos, c') /\
                   Forall2 (fun o m => out_agrees o m = true) fos mos /\ In (q', c') R.
  Proof.
    intros R HR. unfold closed in HR. rewrite forallb_forall in HR.
    induction ls as [|l r IH]; intros q c Hin Hal fos q' Hf; simpl in Hf.
    - inversion Hf; subst. exists [], c. simpl. repeat split; auto.
    - inversion Hal as [|? ? Hl Hr]; subst.
      destruct (fstep q l) as [[o q1]|] eqn:Fs; [|discriminate].
      destruct (frun q1 r) as [[os q2]|] eqn:Fr; [|discriminate].
      inversion Hf; subst. clear Hf.
      specialize (HR (q, c) Hin). apply andb_true_iff in HR. destruct HR as [HR1 _].
      rewrite forallb_forall in HR1. specialize (HR1 l Hl). unfold ok1 in HR1. simpl in HR1.
      rewrite Fs in HR1. destruct (mstep c l) as [[m c1]|] eqn:Ms; [|discriminate].
      apply andb_true_iff in HR1. destruct HR1 as [Hag HinR]. apply in_R_In in HinR.
      destruct (IH q1 c1 HinR Hr os q' Fr) as [mos [c' [Hm [Hall Hin']]]].
      exists (m :: mos), c'. simpl. rewrite Ms, Hm. repeat split; auto.
  Qed.

  Theorem closed_finish : forall R, closed R = true ->
    forall q c ps, In (q, c) R -> ffinish q = Some ps ->
    exists acc, mfinish c = Some acc /\ acc_is acc ps = true.
  Proof.
    intros R HR q c ps Hin Hf. unfold closed in HR. rewrite forallb_forall in HR.
    specialize (HR (q, c) Hin). apply andb_true_iff in HR. destruct HR as [_ HR].
    unfold okfin in HR. simpl in HR. rewrite Hf in HR.
    destruct (mfinish c) as [acc|]; [|discriminate]. exists acc. auto.
  Qed.

  (* ---------- from letters to the concrete pipeline ------------------------------------------ *)
  (* accumulating feed = feed from [] then append *)
  Lemma feed_acc : forall fuel st t acc,
    feed fuel T st t acc =
    match feed fuel T st t [] with
    | Ok (FShift s a) => Ok (FShift s (a ++ acc))
    | Ok (FAccept a) => Ok (FAccept (a ++ acc))
    | Ok (FErr a) => Ok (FErr (a ++ acc))
    | Raise e => Raise e | Unsupported w => Unsupported w | OutOfFuel => OutOfFuel
    end.
  Proof.
    induction fuel as [|f IH]; intros st t acc; simpl; [reflexivity|].
    destruct (decide T (top st) t) as [a|]; [|reflexivity].
    destruct (0 <? a)%Z; [reflexivity|]. destruct (a <? 0)%Z; [|reflexivity].
    destruct (t_prod T (Z.to_N (- a))) as [[lhs n]|]; [|reflexivity].
    destruct lhs as [|l]; [reflexivity|].
    destruct (t_goto T (top (skipn n st)) l); [|reflexivity].
    rewrite (IH _ _ (EReduce (Z.to_N (- a)) :: acc)). rewrite (IH _ _ [EReduce (Z.to_N (- a))]).
    destruct (feed f T (Z.to_N z :: skipn n st) t []) as [[s a0|a0|a0]| | |]; try reflexivity;
      rewrite <- app_assoc; reflexivity.
  Qed.

  (* the raw event accumulator a run of the machine leaves (newest first) *)
  Fixpoint trace_acc (mos : list mout) (lxs : list lexeme) (acc : list event) : list event :=
    match mos, lxs with
    | (a, t, _, vt) :: mr, lx :: lr => trace_acc mr lr (EShift t (apply_vtag vt (snd lx)) :: a ++ acc)
    | _, _ => acc
    end.

  Lemma concretize : forall lxs ls, Forall2 matches lxs ls ->
    forall c mos c', mrun c ls = Some (mos, c') ->
    exists toks ids,
      classify_all (fst c) lxs = Ok (toks, fst c') /\
      toks_to_ids tid toks = Ok ids /\
      forall silent rest acc,
        run silent T (snd c) (ids ++ rest) acc = run silent T (snd c') rest (trace_acc mos lxs acc).
  Proof.
    induction 1 as [|lx l lxs ls Hm Hall IH]; intros c mos c' Hrun; simpl in Hrun.
    - inversion Hrun; subst. exists [], []. simpl. repeat split; reflexivity.
    - destruct (mstep c l) as [[m c1]|] eqn:Ms; [|discriminate].
      destruct (mrun c1 ls) as [[os c2]|] eqn:Mr; [|discriminate].
      inversion Hrun; subst. clear Hrun.
      destruct (IH c1 os c' Mr) as [toks [ids [Hc [Hi Hr]]]].
      unfold mstep in Ms. destruct (lclass l (fst c)) as [[ty vt] f'] eqn:Lc.
      destruct (tid ty) as [t|] eqn:Ti; [|discriminate].
      destruct (feed feed_fuel T (snd c) t []) as [[st' a|a|a]| | |] eqn:Fd; try discriminate.
      inversion Ms; subst. clear Ms. simpl in *.
      exists ((ty, apply_vtag vt (snd lx)) :: toks), ((t, apply_vtag vt (snd lx)) :: ids).
      split; [|split].
      + cbn [classify_all]. rewrite (classify_matches _ _ _ Hm). rewrite Lc. simpl. rewrite Hc. reflexivity.
      + cbn [toks_to_ids]. rewrite Ti, Hi. reflexivity.
      + intros silent rest acc. cbn [app run]. rewrite feed_acc, Fd. apply Hr.
  Qed.

  (* the same trace oldest first *)
  Fixpoint ftrace (mos : list mout) (lxs : list lexeme) : list event :=
    match mos, lxs with
    | (a, t, _, vt) :: mr, lx :: lr => rev a ++ EShift t (apply_vtag vt (snd lx)) :: ftrace mr lr
    | _, _ => []
    end.
  Lemma trace_acc_ftrace : forall mos lxs acc, rev (trace_acc mos lxs acc) = rev acc ++ ftrace mos lxs.
  Proof.
    induction mos as [|[[[a t] ty] vt] mr IH]; intros lxs acc; simpl; [rewrite app_nil_r; reflexivity|].
    destruct lxs as [|lx lr]; [rewrite app_nil_r; reflexivity|].
    rewrite IH. simpl. rewrite rev_app_distr. rewrite <- !app_assoc. reflexivity.
  Qed.

  (* named traces prescribed by the reference machine *)
  Fixpoint ntrace (fos : list fout) (lxs : list lexeme) : list nevent :=
    match fos, lxs with
    | (ps, _, vt) :: fr, lx :: lr => map NReduce ps ++ NShift (apply_vtag vt (snd lx)) :: ntrace fr lr
    | _, _ => []
    end.

  Lemma name_events_app a b x y :
    name_events pname a = Ok x -> name_events pname b = Ok y -> name_events pname (a ++ b) = Ok (x ++ y).
  Proof.
    revert x; induction a as [|e a IH]; intros x Ha Hb; simpl in *.
    - inversion Ha; subst. exact Hb.
    - destruct (name_event pname e) as [n| | |]; try discriminate. simpl in *.
      destruct (name_events pname a) as [t| | |]; try discriminate. simpl in Ha. inversion Ha; subst.
      rewrite (IH t eq_refl Hb). reflexivity.
  Qed.

  Lemma name_ftrace : forall fos mos, Forall2 (fun o m => out_agrees o m = true) fos mos ->
    forall lxs, name_events pname (ftrace mos lxs) = Ok (ntrace fos lxs).
  Proof.
    induction 1 as [|o m fr mr Hag Hall IH]; intros lxs; simpl; [reflexivity|].
    destruct o as [[ps ty] vt]. destruct m as [[[a t] ty'] vt']. unfold out_agrees in Hag.
    apply andb_true_iff in Hag. destruct Hag as [Hag Hvt]. apply andb_true_iff in Hag. destruct Hag as [Hacc Hty].
    apply vtag_eqb_eq in Hvt. subst vt'. apply acc_is_spec in Hacc.
    destruct lxs as [|lx lr]; [reflexivity|].
    apply name_events_app; [exact Hacc|]. simpl. rewrite IH. reflexivity.
  Qed.

  (* ---------- the assembled statement -------------------------------------------------------- *)
  Theorem pipeline_spec : forall R, closed R = true ->
    forall q0, In (q0, (flags0, [0%N])) R ->
    forall lxs ls, Forall2 matches lxs ls -> Forall (fun l => In l alphabet) ls ->
    forall fos q' pfin, frun q0 ls = Some (fos, q') -> ffinish q' = Some pfin ->
    forall norm silent,
      parse_lexemes_g T tid pname norm silent lxs =
      eval norm (ntrace fos lxs ++ map NReduce pfin ++ [NAccept]) [].
  Proof.
    intros R HR q0 Hin lxs ls Hm Hal fos q' pfin Hf Hfin norm silent.
    destruct (closed_sound R HR ls q0 _ Hin Hal fos q' Hf) as [mos [c' [Hrun [Hag Hin']]]].
    destruct (closed_finish R HR q' c' pfin Hin' Hfin) as [afin [Hmf Hafin]].
    destruct (concretize lxs ls Hm _ _ _ Hrun) as [toks [ids [Hc [Hi Hr]]]].
    unfold parse_lexemes_g. simpl in Hc. rewrite Hc. simpl.
    unfold parse_tokens_g. rewrite Hi. simpl.
    unfold lr_trace. rewrite (Hr silent _ []). simpl snd.
    unfold mfinish in Hmf.
    destruct (feed feed_fuel T (snd c') (t_end T) []) as [[s a|a|a]| | |] eqn:Fd; try discriminate.
    inversion Hmf; subst a. clear Hmf.
    cbn [run]. rewrite feed_acc, Fd.
    assert (E : rev (EAccept :: afin ++ trace_acc mos lxs []) = ftrace mos lxs ++ rev afin ++ [EAccept]).
    { simpl. rewrite rev_app_distr, trace_acc_ftrace. simpl. rewrite <- app_assoc. reflexivity. }
    rewrite E. simpl.
    rewrite (name_events_app _ _ (ntrace fos lxs) (map NReduce pfin ++ [NAccept])).
    - reflexivity.
    - apply name_ftrace; exact Hag.
    - apply name_events_app; [apply acc_is_spec; exact Hafin | reflexivity].
  Qed.
End Machine.
