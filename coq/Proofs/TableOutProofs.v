(* C01 / C02: the output stage on the entity of the core CREATE TABLE fragment (mode "sql"):
   what Output.format makes of Table.denote, for any number of columns. *)
From Coq Require Import String Ascii List ZArith NArith Bool Lia.
From SDP Require Import Base PyStr Lexer Actions Parse Engine Seq Entity Output OutputProofs Table TableProofs.
From SDP.Gen Require Fields.
Import ListNotations.
Open Scope string_scope.

Definition sql_hooks := match mode_info "sql" with Some x => fst x | None => [] end.
Definition sql_fs := match mode_info "sql" with Some x => snd x | None => [] end.
Lemma mode_info_sql : mode_info "sql" = Some (sql_hooks, sql_fs).
Proof. reflexivity. Qed.

(* a column entity of the parser stage, abstractly *)
Record cd := mkCD { cd_name : string; cd_ty : string; cd_sz : pyval; cd_cs : cstate }.
Definition cd_dict (x : cd) : pyval := PDict (cdict (cd_name x) (cd_ty x) (cd_sz x) (cd_cs x)).

Definition obj0_lit (sch tn : pyval) (cols : list pyval) : dict :=
  [("table_name", tn);
   ("init_data", PDict [("schema", sch); ("table_name", tn); ("columns", PList cols); ("checks", PList []); ("output_mode", PStr "sql")]);
   ("output_mode", PStr "sql"); ("schema", sch); ("primary_key", PNone); ("columns", PList cols); ("alter", PDict []);
   ("checks", PList []); ("index", PList []); ("partitioned_by", PList []); ("constraints", PDict []); ("tablespace", PNone);
   ("if_not_exists", PBool false); ("partition_by", PDict []); ("table_properties", PDict []); ("replace", PNone);
   ("comment", PNone); ("like", PDict []); ("unique", PList []); ("unique_statement", PList []); ("ref_columns", PList []);
   ("references", PList [])].
Lemma obj0_sql sch tn cols : table_obj0 sql_fs "sql" (tdict sch tn cols) = obj0_lit sch tn cols.
Proof. vm_compute. reflexivity. Qed.

Lemma mapM_map2 {A B C} (f : B -> res C) (h : A -> B) (g : A -> C) (l : list A) :
  (forall x, f (h x) = Ok (g x)) -> mapM f (map h l) = Ok (map g l).
Proof. intro H. induction l as [|x r IH]; simpl; [reflexivity|]. rewrite H, IH. reflexivity. Qed.

Definition pk_of (l : list cd) : list pyval := flat_map (fun x => if cs_pk (cd_cs x) then [PStr (cd_name x)] else []) l.
Definition final_col (pk : list pyval) (x : cd) : pyval :=
  PDict [("name", PStr (cd_name x)); ("type", PStr (cd_ty x)); ("size", cd_sz x); ("references", cs_refs (cd_cs x));
         ("unique", PBool (cs_unique (cd_cs x)));
         ("nullable", if py_in_list (PStr (cd_name x)) pk then PBool false else cs_nullable (cd_cs x));
         ("default", cs_default (cd_cs x)); ("check", PNone)].

Definition del_pk (x : cd) : pyval :=
  PDict [("name", PStr (cd_name x)); ("type", PStr (cd_ty x)); ("size", cd_sz x); ("references", cs_refs (cd_cs x));
         ("unique", PBool (cs_unique (cd_cs x))); ("nullable", cs_nullable (cd_cs x));
         ("default", cs_default (cd_cs x)); ("check", PNone)].

Lemma concat_map_flat {A B} (f : A -> list B) l : concat (map f l) = flat_map f l.
Proof. induction l as [|x r IH]; simpl; [reflexivity|]. rewrite IH. reflexivity. Qed.

Lemma populate_obj0 sch tn (l : list cd) :
  populate_keys (obj0_lit sch tn (map cd_dict l)) =
  Ok (dict_set (dict_set (obj0_lit sch tn (map cd_dict l)) "columns" (PList (map (final_col (pk_of l)) l))) "primary_key" (PList (pk_of l))).
Proof.
  unfold populate_keys.
  change (get_or_none (obj0_lit sch tn (map cd_dict l)) "columns") with (PList (map cd_dict l)).
  change (get_or_none (obj0_lit sch tn (map cd_dict l)) "primary_key") with PNone.
  change (get_or_none (obj0_lit sch tn (map cd_dict l)) "constraints") with (PDict []).
  cbn [as_list bind truthy negb].
  rewrite (mapM_map2 _ cd_dict (fun x => if cs_pk (cd_cs x) then [PStr (cd_name x)] else []))
    by (intro x; destruct x as [n t z [r u p nl d]]; destruct p; reflexivity).
  cbn [bind].
  rewrite (mapM_map2 _ cd_dict del_pk) by (intro x; reflexivity).
  cbn [bind get_or_none dict_get truthy].
  change (truthy (get_or_none [] "primary_keys")) with false. cbn [bind].
  rewrite concat_map_flat, app_nil_r. fold (pk_of l).
  match goal with |- context [truthy (get_or_none ?o "unique")] => change (truthy (get_or_none o "unique")) with false end.
  cbn [bind].
  match goal with |- context [as_list (get_or_none ?o "columns")] => change (get_or_none o "columns") with (PList (map del_pk l)) end.
  match goal with |- context [as_list (get_or_none ?o "primary_key")] => change (get_or_none o "primary_key") with (PList (pk_of l)) end.
  cbn [as_list bind].
  rewrite (mapM_map2 _ del_pk (final_col (pk_of l))).
  - cbn [bind]. reflexivity.
  - intro x. unfold del_pk, final_col, col_get, col_set. cbn [as_dict' bind].
    change (getitem _ "name") with (Ok (PStr (cd_name x)) : res pyval). cbn [bind].
    destruct (py_in_list (PStr (cd_name x)) (pk_of l)); reflexivity.
Qed.

Definition obj_final (sch tn : pyval) (l : list cd) : dict :=
  dict_set (dict_set (obj0_lit sch tn (map cd_dict l)) "columns" (PList (map (final_col (pk_of l)) l))) "primary_key" (PList (pk_of l)).

Lemma table_init_sql sch tn (l : list cd) :
  table_init "sql" (tdict sch tn (map cd_dict l)) = Ok (obj_final sch tn l).
Proof.
  unfold table_init. rewrite mode_info_sql. cbv zeta. rewrite obj0_sql.
  assert (E1 : set_unique_columns (obj0_lit sch tn (map cd_dict l)) = Ok (obj0_lit sch tn (map cd_dict l))) by reflexivity.
  rewrite E1. cbn [bind]. rewrite populate_obj0. cbn [bind]. fold (obj_final sch tn l).
  assert (E2 : normalize_ref_columns (obj_final sch tn l) = Ok (obj_final sch tn l)) by reflexivity.
  rewrite E2. cbn [bind].
  assert (E3 : post_process sql_hooks (obj_final sch tn l) = Ok (obj_final sch tn l)) by reflexivity.
  rewrite E3. cbn [bind]. reflexivity.
Qed.

(* what the user sees for the table (mode sql, flat result) *)
Definition final_table (sch tn : pyval) (l : list cd) : dict :=
  [("table_name", tn); ("schema", sch); ("primary_key", PList (pk_of l)); ("columns", PList (map (final_col (pk_of l)) l));
   ("alter", PDict []); ("checks", PList []); ("index", PList []); ("partitioned_by", PList []); ("tablespace", PNone)].

Lemma to_dict_sql sch tn l : to_dict "sql" (obj_final sch tn l) = Ok (final_table sch tn l).
Proof. reflexivity. Qed.

(* schema = None or a string; table name = a non-empty string *)
Definition sch_ok (sch : pyval) : Prop := sch = PNone \/ exists s, sch = PStr s.

Theorem format_table_sql sch n (l : list cd) : sch_ok sch -> n <> "" ->
  Output.format "sql" false [PDict (tdict sch (PStr n) (map cd_dict l))] = Ok (PList [PDict (final_table sch (PStr n) l)]).
Proof.
  intros Hs Hn. unfold Output.format. cbn [fold_left bind]. unfold step. rewrite mode_info_sql.
  cbn [bind]. change (String.eqb "sql" "bigquery") with false. cbv iota.
  change (dict_has (tdict sch (PStr n) (map cd_dict l)) "index_name" || dict_has (tdict sch (PStr n) (map cd_dict l)) "alter_table_name") with false.
  cbv iota.
  change (get_or_none (tdict sch (PStr n) (map cd_dict l)) "table_name") with (PStr n).
  assert (Ht : truthy (PStr n) = true).
  { unfold truthy. destruct n; [congruence|reflexivity]. }
  rewrite Ht. rewrite table_init_sql. cbn [bind].
  change (get_or_none (obj_final sch (PStr n) l) "schema") with sch.
  change (get_or_none (obj_final sch (PStr n) l) "table_name") with (PStr n).
  assert (Hid : exists id, get_table_id sch (PStr n) = Ok id).
  { unfold get_table_id. cbn [normalize_name_v bind]. destruct Hs as [->|[s ->]].
    - eexists; reflexivity.
    - cbn [truthy]. destruct (negb (String.eqb s "")); cbn [normalize_name_v bind]; eexists; reflexivity. }
  destruct Hid as [id Hid]. rewrite Hid. cbn [bind]. rewrite to_dict_sql. cbn [bind]. reflexivity.
Qed.

(* ---------- the two stages together: from the lexemes of the statement to what run() reports for it ------------------- *)
Definition cd_of (norm : bool) (c : column) : cd :=
  mkCD (nms norm (c_name c)) (col_type norm c) (col_size c) (fold_left (apply_opt norm) (c_opts c) cs0).
Lemma col_dict_cd norm c : col_dict norm c = cd_dict (cd_of norm c).
Proof. reflexivity. Qed.
Definition cds (norm : bool) (t : table) : list cd := map (cd_of norm) (t_first t :: t_rest t).

Lemma denote_cds norm t :
  Table.denote norm t = PDict (tdict (onm norm (t_schema t)) (PStr (nms norm (t_name t))) (map cd_dict (cds norm t))).
Proof. unfold Table.denote, cds. rewrite map_map. reflexivity. Qed.

Theorem table_parse_and_format : forall t norm silent, Table.wf norm t = true -> nms norm (t_name t) <> "" ->
  parse_lexemes norm silent (Table.lexemes t) = Ok (Some (Table.denote norm t)) /\
  Output.format "sql" false [Table.denote norm t]
  = Ok (PList [PDict (final_table (onm norm (t_schema t)) (PStr (nms norm (t_name t))) (cds norm t))]).
Proof.
  intros t norm silent Hwf Hn. split; [apply TableProofs.table_parse; exact Hwf|].
  rewrite denote_cds. apply format_table_sql; [|exact Hn].
  unfold sch_ok, onm. destruct (t_schema t); [right; eexists; reflexivity|left; reflexivity].
Qed.

(* ---------- readable consequences ---------------------------------------------------------------------------------------- *)
Lemma pyval_eqb_str_refl s : pyval_eqb (PStr s) (PStr s) = true.
Proof. simpl. apply String.eqb_refl. Qed.

(* every column declared PRIMARY KEY is in the reported key and is reported non-nullable, whatever else its options said *)
Lemma pk_member (l : list cd) x : In x l -> cs_pk (cd_cs x) = true -> py_in_list (PStr (cd_name x)) (pk_of l) = true.
Proof.
  intros Hin Hpk. unfold py_in_list. apply existsb_exists. exists (PStr (cd_name x)). split; [|apply pyval_eqb_str_refl].
  unfold pk_of. apply in_flat_map. exists x. split; [exact Hin|]. rewrite Hpk. left. reflexivity.
Qed.
Lemma pk_col_not_nullable (l : list cd) x : In x l -> cs_pk (cd_cs x) = true ->
  exists d, final_col (pk_of l) x = PDict d /\ dict_get d "nullable" = Some (PBool false).
Proof.
  intros Hin Hpk. unfold final_col. rewrite (pk_member l x Hin Hpk). eexists. split; reflexivity.
Qed.
(* the reported key lists exactly the PRIMARY KEY columns, in declaration order *)
Lemma pk_of_spec (l : list cd) : pk_of l = map (fun x => PStr (cd_name x)) (filter (fun x => cs_pk (cd_cs x)) l).
Proof. induction l as [|x r IH]; [reflexivity|]. unfold pk_of in *. simpl. destruct (cs_pk (cd_cs x)); simpl; rewrite IH; reflexivity. Qed.
(* one output column per declared column, in order, with the declared name / type / size / uniqueness / default / reference *)
Lemma final_cols_length (l : list cd) : List.length (map (final_col (pk_of l)) l) = List.length l.
Proof. apply map_length. Qed.
Lemma final_col_fields pk x : exists d, final_col pk x = PDict d /\
  dict_get d "name" = Some (PStr (cd_name x)) /\ dict_get d "type" = Some (PStr (cd_ty x)) /\ dict_get d "size" = Some (cd_sz x) /\
  dict_get d "unique" = Some (PBool (cs_unique (cd_cs x))) /\ dict_get d "default" = Some (cs_default (cd_cs x)) /\
  dict_get d "references" = Some (cs_refs (cd_cs x)) /\ dict_has d "primary_key" = false.
Proof. eexists. split; [reflexivity|]. repeat split. Qed.
Lemma one_entry_per_column norm t :
  List.length (map (final_col (pk_of (cds norm t))) (cds norm t)) = Datatypes.S (List.length (t_rest t)).
Proof. rewrite final_cols_length. unfold cds. rewrite map_length. reflexivity. Qed.
