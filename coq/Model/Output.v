(* output/core.py (Output.format, group_by_type_result), output/table_data.py (TableData.init),
   output/base_data.py (BaseData) and the dialect hooks of output/dialects.py, over pyval.
   Field lists, defaults, metadata and hook names come from Gen/Fields.v (regenerated from /repo).
   Objects that Python mutates after they were emitted (a table's columns / alter / index) are kept in
   a store and read at the end.  No proofs here. *)
From Coq Require Import String Ascii List ZArith NArith Bool.
From SDP Require Import Base PyStr Actions.
From SDP.Gen Require Fields Tokens.
Import ListNotations.
Open Scope string_scope.

Definition dict := list (string * pyval).

(* ---------- python helpers -------------------------------------------------------------------- *)
Definition truthy (v : pyval) : bool :=
  match v with
  | PNone => false | PBool b => b | PInt z => negb (Z.eqb z 0)
  | PStr s => negb (String.eqb s "") | PList l | PTuple l => match l with [] => false | _ => true end
  | PDict d => match d with [] => false | _ => true end
  end.

Fixpoint dict_del (d : dict) (k : string) : dict :=
  match d with [] => [] | (k', v) :: r => if String.eqb k k' then r else (k', v) :: dict_del r k end.
Definition get_or_none (d : dict) (k : string) : pyval := match dict_get d k with Some v => v | None => PNone end.
Definition getitem (d : dict) (k : string) : res pyval :=
  match dict_get d k with Some v => Ok v | None => Raise KeyError end.
Definition as_list (v : pyval) : res (list pyval) :=
  match v with PList l => Ok l | _ => Raise TypeError end.
Definition as_dict' (v : pyval) : res dict := match v with PDict d => Ok d | _ => Raise TypeError end.

Fixpoint pyval_eqb (a b : pyval) {struct a} : bool :=
  let fix list_eq (l1 l2 : list pyval) : bool :=
      match l1, l2 with
      | [], [] => true
      | x :: r, y :: s => pyval_eqb x y && list_eq r s
      | _, _ => false
      end in
  let fix dict_eq (l1 l2 : dict) : bool :=
      match l1, l2 with
      | [], [] => true
      | (k, x) :: r, (k', y) :: s => String.eqb k k' && pyval_eqb x y && dict_eq r s
      | _, _ => false
      end in
  match a, b with
  | PNone, PNone => true
  | PBool x, PBool y => Bool.eqb x y
  | PInt x, PInt y => Z.eqb x y
  | PBool x, PInt y | PInt y, PBool x => Z.eqb (if x then 1 else 0) y
  | PStr x, PStr y => String.eqb x y
  | PList x, PList y => list_eq x y
  | PTuple x, PTuple y => list_eq x y
  | PDict x, PDict y => dict_eq x y      (* order-sensitive: only used on values built the same way *)
  | _, _ => false
  end.
(* `x in list` *)
Definition py_in_list (x : pyval) (l : list pyval) : bool := existsb (pyval_eqb x) l.

(* utils.normalize_name : delete the characters [ ] double-quote backtick, then lower()
   (the correspondence runs check this against the live function) *)
Definition is_delim (c : ascii) : bool :=
  Ascii.eqb c "["%char || Ascii.eqb c "]"%char || Ascii.eqb c """"%char || Ascii.eqb c "`"%char.
Fixpoint sfilter (f : ascii -> bool) (s : string) : string :=
  match s with EmptyString => "" | String c r => if f c then String c (sfilter f r) else sfilter f r end.
Definition normalize_name (s : string) : string := lower (sfilter (fun c => negb (is_delim c)) s).
Definition normalize_name_v (v : pyval) : res string :=
  match v with PStr s => Ok (normalize_name s) | _ => Raise TypeError end.

(* get_table_id(schema, table) *)
Definition table_id := (string * option string)%type.
Definition get_table_id (schema table : pyval) : res table_id :=
  do t <- normalize_name_v table;
  if truthy schema then do s <- normalize_name_v schema; Ok (t, Some s) else Ok (t, None).
Definition table_id_eqb (a b : table_id) : bool :=
  String.eqb (fst a) (fst b) &&
  match snd a, snd b with Some x, Some y => String.eqb x y | None, None => true | _, _ => false end.

(* ---------- metadata from Gen ------------------------------------------------------------------ *)
Definition mode_info (mode : string) : option (list (string * string) * list field) := assoc mode Fields.mode_fields.
Definition find_field (fs : list field) (k : string) : option field :=
  List.find (fun f => String.eqb (f_name f) k) fs.
Definition hook (hooks : list (string * string)) (k : string) : string :=
  match assoc k hooks with Some s => s | None => "" end.

(* ---------- BaseData.__post_init__ -------------------------------------------------------------- *)
(* map over the column dicts, failing like Python does *)
Fixpoint mapM {A B} (f : A -> res B) (l : list A) : res (list B) :=
  match l with [] => Ok [] | x :: r => do y <- f x; do t <- mapM f r; Ok (y :: t) end.

Definition col_set (c : pyval) (k : string) (v : pyval) : res pyval :=
  do d <- as_dict' c; Ok (PDict (dict_set d k v)).
Definition col_get (c : pyval) (k : string) : res pyval := do d <- as_dict' c; getitem d k.

(* set_column_unique_param(key) *)
Definition set_column_unique_param (obj : dict) (key : string) : res dict :=
  do cols <- as_list (get_or_none obj "columns");
  do check_in <-
     (if String.eqb key "constraints" then
        do cons <- as_dict' (get_or_none obj "constraints");
        let unique := match dict_get cons "unique" with Some u => u | None => PList [] end in
        if truthy unique then (do ud <- as_dict' unique; getitem ud "columns") else Ok (PList [])
      else Ok (get_or_none obj key));
  do cl <- (match check_in with
            | PList l | PTuple l => Ok l
            | PDict d => Ok (map (fun kv => PStr (fst kv)) d)
            | PStr s => Ok (map (fun c => PStr (String c "")) (s2l s))
            | _ => Raise TypeError end);
  do cols' <- mapM (fun c =>
                      do n <- col_get c "name";
                      if Nat.eqb (List.length cl) 1 && py_in_list n cl then col_set c "unique" (PBool true) else Ok c) cols;
  Ok (dict_set obj "columns" (PList cols')).

Definition set_unique_columns (obj : dict) : res dict :=
  do o1 <- (if truthy (get_or_none obj "unique_statement") then set_column_unique_param obj "unique_statement" else Ok obj);
  if truthy (get_or_none o1 "constraints") then set_column_unique_param o1 "constraints" else Ok o1.

Definition populate_keys (obj : dict) : res dict :=
  do cols <- as_list (get_or_none obj "columns");
  do o1 <-
     (if negb (truthy (get_or_none obj "primary_key")) then
        (* get_pk_from_columns_and_constraints *)
        do pk1 <- mapM (fun c => do p <- col_get c "primary_key"; do n <- col_get c "name";
                                 Ok (if truthy p then [n] else [])) cols;
        do cols' <- mapM (fun c => do d <- as_dict' c; Ok (PDict (dict_del d "primary_key"))) cols;
        do cons <- (match get_or_none obj "constraints" with PDict d => Ok d | _ => Raise AttributeError end);
        do pk2 <- (let pks := get_or_none cons "primary_keys" in
                   if truthy pks then
                     do l <- as_list pks;
                     do ll <- mapM (fun kc => do d <- as_dict' kc; do c <- getitem d "columns"; as_list c) l;
                     Ok (concat ll)
                   else Ok []);
        Ok (dict_set (dict_set obj "columns" (PList cols')) "primary_key" (PList (concat pk1 ++ pk2)))
      else
        (* remove_pk_from_columns *)
        do cols' <- mapM (fun c => do d <- as_dict' c;
                                   if dict_has d "primary_key" then Ok (PDict (dict_del d "primary_key")) else Raise KeyError) cols;
        Ok (dict_set obj "columns" (PList cols')));
  do o2 <-
     (if truthy (get_or_none o1 "unique") then
        do cols <- as_list (get_or_none o1 "columns");
        do ul <- as_list (get_or_none o1 "unique");
        do cols' <- mapM (fun c => do n <- col_get c "name";
                                   if py_in_list n ul then col_set c "unique" (PBool true) else Ok c) cols;
        Ok (dict_set o1 "columns" (PList cols'))
      else Ok o1);
  do cols <- as_list (get_or_none o2 "columns");
  do pk <- as_list (get_or_none o2 "primary_key");
  do cols' <- mapM (fun c => do n <- col_get c "name";
                             if py_in_list n pk then col_set c "nullable" (PBool false) else Ok c) cols;
  Ok (dict_set o2 "columns" (PList cols')).

(* normalize_ref_columns_in_final_output: the ref entry loses its name on the first hit; a later column
   with the same name would raise KeyError on `del` *)
Definition normalize_ref_columns (obj : dict) : res dict :=
  do refs <- as_list (get_or_none obj "ref_columns");
  do cols <- as_list (get_or_none obj "columns");
  let step (acc : res (list pyval)) (r : pyval) : res (list pyval) :=
      do cs <- acc;
      do rd <- as_dict' r;
      do name <- getitem rd "name";
      (fix go (cs : list pyval) (rd : dict) : res (list pyval) :=
         match cs with
         | [] => Ok []
         | c :: rest =>
           do n <- col_get c "name";
           if pyval_eqb name n then
             if dict_has rd "name" then
               let rd' := dict_del rd "name" in
               do c' <- col_set c "references" (PDict rd');
               do t <- go rest rd'; Ok (c' :: t)
             else Raise KeyError
           else do t <- go rest rd; Ok (c :: t)
         end) cs rd in
  do cols' <- fold_left step refs (Ok cols);
  Ok (dict_set obj "columns" (PList cols')).

(* dialect post_process hooks *)
Definition post_process (hooks : list (string * string)) (obj : dict) : res dict :=
  let h := hook hooks "post_process" in
  if String.eqb h "Dialect.post_process" || String.eqb h "BaseData.post_process" then Ok obj
  else if String.eqb h "Oracle.post_process" then
    do cols <- as_list (get_or_none obj "columns");
    do cols' <- mapM (fun c => col_set c "encrypt" PNone) cols;
    Ok (dict_set obj "columns" (PList cols'))
  else if String.eqb h "Redshift.post_process" then
    do cols <- as_list (get_or_none obj "columns");
    let enc := get_or_none obj "encode" in
    let step (acc : res (dict * list pyval)) (c : pyval) : res (dict * list pyval) :=
        do '(o, done) <- acc;
        do d <- as_dict' c;
        let d1 := dict_set d "encode" (get_or_none d "encode") in
        do '(o1, d2) <- (if truthy (get_or_none d1 "distkey")
                         then do n <- getitem d1 "name"; Ok (dict_set o "distkey" n, dict_del d1 "distkey")
                         else Ok (o, d1));
        let d3 := if truthy enc
                  then dict_set d2 "encode" (if truthy (get_or_none d2 "encode") then get_or_none d2 "encode" else enc)
                  else d2 in
        Ok (o1, done ++ [PDict d3])%list in
    do '(o, cols') <- fold_left step cols (Ok (obj, []));
    Ok (dict_set o "columns" (PList cols'))
  else Unsupported ("post_process hook " ++ h).

Definition mixin_post_init (hooks : list (string * string)) (obj : dict) : res dict :=
  let h := hook hooks "post_init" in
  if String.eqb h "BaseData.__post_init__" then Ok obj
  else if String.eqb h "CommonDialectsFieldsMixin.__post_init__" then
    match get_or_none obj "lines_terminated_by" with
    | PStr s =>
      if negb (String.eqb s "") && (contains s "'\n'" || contains s """\n""")
      then Ok (dict_set obj "lines_terminated_by" (PStr (replace s "\n" (String (ascii_of_nat 10) ""))))
      else Ok obj
    | v => if truthy v then Raise TypeError else Ok obj
    end
  else Unsupported ("post_init hook " ++ h).

(* ---------- TableData.init ------------------------------------------------------------------------ *)
Definition lower_keys (d : dict) : dict := map (fun kv => (lower (fst kv), snd kv)) d.

(* dict(kwargs) after the in-place steps of pre_load_mods; building dicts by comprehension keeps the
   first position of a repeated (lower-cased) key and the last value *)
Definition build_dict (l : dict) : dict := fold_left (fun acc kv => dict_set acc (fst kv) (snd kv)) l [].

(* the dataclass object right after __init__ (before __post_init__'s steps) *)
Definition table_obj0 (fs : list field) (mode : string) (stmt : dict) : dict :=
    let kw0 := dict_set stmt "output_mode" (PStr mode) in
    (* pre_load_mods (its in-place part; running it twice changes nothing more) *)
    let kw1 := if String.eqb mode "bigquery" && truthy (get_or_none kw0 "schema")
               then dict_del (dict_set kw0 "dataset" (get_or_none kw0 "schema")) "schema" else kw0 in
    let kw2 := fold_left (fun k f => if negb (String.eqb (f_alias f) "") && dict_has k (f_alias f)
                                     then dict_del (dict_set k (f_name f) (get_or_none k (f_alias f))) (f_alias f)
                                     else k) fs kw1 in
    let kw3 := if pyval_eqb (get_or_none kw2 "fields_terminated_by") (PStr "_ddl_parser_comma_only_str")
               then dict_set kw2 "fields_terminated_by" (PStr "','") else kw2 in
    let is_field (k : string) := match find_field fs k with Some _ => true | None => false end in
    let main := build_dict (filter (fun kv => is_field (fst kv)) (lower_keys kw3)) in
    let props := build_dict (filter (fun kv => negb (dict_has main (fst kv))) (lower_keys kw3)) in
    let init_data := dict_update main props in
    let kwargs := dict_set (dict_set main "table_properties" (PDict props)) "init_data" (PDict init_data) in
    (* dataclass __init__: every field, in field order *)
    map (fun f => (f_name f, match dict_get kwargs (f_name f) with Some v => v | None => f_default f end)) fs.

Definition table_init (mode : string) (stmt : dict) : res dict :=
  match mode_info mode with
  | None => Unsupported ("mode " ++ mode)
  | Some (hooks, fs) =>
    let obj0 := table_obj0 fs mode stmt in
    do o1 <- set_unique_columns obj0;
    do o2 <- populate_keys o1;
    do o3 <- normalize_ref_columns o2;
    do o4 <- post_process hooks o3;
    mixin_post_init hooks o4
  end.

(* filter_out_output + get_alias_if_exists + to_dict *)
Definition filter_out (fs : list field) (obj : dict) (k : string) : bool :=
  match find_field fs k with
  | None => true
  | Some f =>
    if f_exclude_always f then false
    else
      let init_data := match get_or_none obj "init_data" with PDict d => d | _ => [] end in
      let mode := match get_or_none obj "output_mode" with PStr s => s | _ => "" end in
      negb (f_exclude_if_not_provided f && negb (dict_has init_data k))
      && negb (f_exclude_if_empty f && negb (truthy (get_or_none obj k)))
      && negb (f_has_modes f && negb (mem mode (f_output_modes f)))
  end.

Definition to_dict (mode : string) (obj : dict) : res dict :=
  match mode_info mode with
  | None => Unsupported ("mode " ++ mode)
  | Some (hooks, fs) =>
    let h := hook hooks "to_dict" in
    if String.eqb h "BaseData.to_dict" || String.eqb h "BigQuery.to_dict" then
      let skip_schema := String.eqb h "BigQuery.to_dict" in
      Ok (flat_map (fun kv =>
                      if skip_schema && String.eqb (fst kv) "schema" then []
                      else if filter_out fs obj (fst kv)
                           then [(match find_field fs (fst kv) with
                                  | Some f => if String.eqb (f_alias f) "" then fst kv else f_alias f
                                  | None => fst kv end, snd kv)]
                           else []) obj)
    else Unsupported ("to_dict hook " ++ h)
  end.

(* ---------- alters ------------------------------------------------------------------------------------ *)
Definition prepare_ref_statement (hooks : list (string * string)) (r : dict) : res dict :=
  let h := hook hooks "prepare_ref_statement" in
  if String.eqb h "BaseData.prepare_ref_statement" then Ok r
  else if String.eqb h "BigQuery.prepare_ref_statement" then
    if dict_has r "schema" then Ok (dict_del (dict_set r "dataset" (get_or_none r "schema")) "schema") else Ok r
  else Unsupported ("prepare_ref_statement hook " ++ h).

Fixpoint nth_py (l : list pyval) (n : nat) : res pyval :=
  match l, n with
  | x :: _, O => Ok x
  | _ :: r, S k => nth_py r k
  | [], _ => Raise IndexError
  end.

Definition col_names_normalized (cols : list pyval) : res (list string) :=
  mapM (fun c => do n <- col_get c "name"; normalize_name_v n) cols.

(* the table as emitted: its output dict; columns / alter / index are the live parts *)
Definition tget (t : dict) (k : string) : pyval := get_or_none t k.

Definition prepare_alter_columns (hooks : list (string * string)) (t : dict) (stmt : dict) : res dict :=
  do scols <- (do c <- getitem stmt "columns"; as_list c);
  let refs := get_or_none stmt "references" in
  do '(_, alter_columns) <-
     (fix go (cols : list pyval) (num : nat) (refs : pyval) : res (pyval * list pyval) :=
        match cols with
        | [] => Ok (refs, [])
        | column :: rest =>
          if truthy refs then
            do rd <- as_dict' refs;
            do rcols <- (do c <- getitem rd "columns"; as_list c);
            do column_reference <- nth_py rcols num;
            do cd <- as_dict' column;
            do name <- getitem cd "name";
            do rd' <- prepare_ref_statement hooks rd;
            let r2 := dict_del (dict_set rd' "column" column_reference) "columns" in
            let ac := PDict [("name", name); ("constraint_name", get_or_none cd "constraint_name"); ("references", PDict r2)] in
            do '(rf, t') <- go rest (S num) (PDict rd'); Ok (rf, ac :: t')
          else do '(rf, t') <- go rest (S num) refs; Ok (rf, column :: t')
        end) scols O refs;
  do alter <- as_dict' (tget t "alter");
  let old := get_or_none alter "columns" in
  do all_alter <- (if negb (truthy old) then Ok alter_columns else do o <- as_list old; Ok (o ++ alter_columns)%list);
  let alter' := dict_set alter "columns" (PList all_alter) in
  do cols <- as_list (tget t "columns");
  do names <- col_names_normalized cols;          (* computed once, before the loop *)
  do cols' <- fold_left (fun acc c =>
                           do cs <- acc;
                           do n <- (do x <- col_get c "name"; normalize_name_v x);
                           if mem n names then Ok cs else Ok (cs ++ [c])%list) alter_columns (Ok cols);
  Ok (dict_set (dict_set t "alter" (PDict alter')) "columns" (PList cols')).

Fixpoint find_index {A} (f : A -> res bool) (l : list A) (i : nat) : res (option nat) :=
  match l with
  | [] => Ok None
  | x :: r => do b <- f x; if b then Ok (Some i) else find_index f r (S i)
  end.
Fixpoint replace_nth (l : list pyval) (n : nat) (v : pyval) : list pyval :=
  match l, n with
  | _ :: r, O => v :: r
  | x :: r, S k => x :: replace_nth r k v
  | [], _ => []
  end.
Fixpoint remove_nth (l : list pyval) (n : nat) : list pyval :=
  match l, n with
  | _ :: r, O => r
  | x :: r, S k => x :: remove_nth r k
  | [], _ => []
  end.

Definition ensure_list_key (alter : dict) (k : string) : dict :=
  if truthy (get_or_none alter k) then alter else dict_set alter k (PList []).

Definition alter_modify_columns (t stmt : dict) : res dict :=
  do alter0 <- as_dict' (tget t "alter");
  let alter := ensure_list_key alter0 "modified_columns" in
  do mods <- (do c <- getitem stmt "columns_to_modify"; as_list c);
  do cols <- as_list (tget t "columns");
  do '(alter', cols') <-
     fold_left (fun acc m =>
                  do '(al, cs) <- acc;
                  do mn <- (do x <- col_get m "name"; normalize_name_v x);
                  do idx <- find_index (fun c => do n <- (do x <- col_get c "name"; normalize_name_v x); Ok (String.eqb mn n)) cs O;
                  match idx with
                  | Some i => do old <- nth_py cs i; Ok (dict_set al "modified_columns" old, replace_nth cs i m)
                  | None => Ok (al, cs)
                  end) mods (Ok (alter, cols));
  Ok (dict_set (dict_set t "alter" (PDict alter')) "columns" (PList cols')).

Definition alter_drop_columns (t stmt : dict) : res dict :=
  do alter0 <- as_dict' (tget t "alter");
  let alter := ensure_list_key alter0 "dropped_columns" in
  do drops <- (do c <- getitem stmt "columns_to_drop"; as_list c);
  do cols <- as_list (tget t "columns");
  do '(alter', cols') <-
     fold_left (fun acc dn =>
                  do '(al, cs) <- acc;
                  do dnn <- normalize_name_v dn;
                  do idx <- find_index (fun c => do n <- (do x <- col_get c "name"; normalize_name_v x); Ok (String.eqb dnn n)) cs O;
                  match idx with
                  | Some i => do old <- nth_py cs i; Ok (dict_set al "dropped_columns" old, remove_nth cs i)
                  | None => Ok (al, cs)
                  end) drops (Ok (alter, cols));
  Ok (dict_set (dict_set t "alter" (PDict alter')) "columns" (PList cols')).

Definition alter_rename_columns (t stmt : dict) : res dict :=
  do rens <- (do c <- getitem stmt "columns_to_rename"; as_list c);
  do cols <- as_list (tget t "columns");
  do cols' <-
     fold_left (fun acc r =>
                  do cs <- acc;
                  do rd <- as_dict' r;
                  do from <- (do x <- getitem rd "from"; normalize_name_v x);
                  do idx <- find_index (fun c => do n <- (do x <- col_get c "name"; normalize_name_v x); Ok (String.eqb from n)) cs O;
                  match idx with
                  | Some i => do old <- nth_py cs i; do to <- getitem rd "to"; do c' <- col_set old "name" to; Ok (replace_nth cs i c')
                  | None => Ok cs
                  end) rens (Ok cols);
  do alter0 <- as_dict' (tget t "alter");
  let alter := ensure_list_key alter0 "renamed_columns" in
  do old <- as_list (get_or_none alter "renamed_columns");
  Ok (dict_set (dict_set t "alter" (PDict (dict_set alter "renamed_columns" (PList (old ++ rens)%list)))) "columns" (PList cols')).

Definition set_alter_to_table_data (t : dict) (key : string) (stmt : dict) : res dict :=
  do alter0 <- as_dict' (tget t "alter");
  let k := key ++ "s" in
  let alter := ensure_list_key alter0 k in
  do item <- getitem stmt key;
  do item' <- (if dict_has stmt "using" then do d <- as_dict' item; Ok (PDict (dict_set d "using" (get_or_none stmt "using"))) else Ok item);
  do old <- as_list (get_or_none alter k);
  Ok (dict_set t "alter" (PDict (dict_set alter k (PList (old ++ [item'])%list)))).

Definition process_check_in_statement (t stmt : dict) : res dict :=
  do alter0 <- as_dict' (tget t "alter");
  let alter := ensure_list_key alter0 "checks" in
  do chk <- (do c <- getitem stmt "check"; as_dict' c);
  do st <- getitem chk "statement";
  do chk' <- (match st with
              | PList l => do ss <- mapM as_str l; Ok (dict_set chk "statement" (PStr (join " " ss)))
              | _ => Ok chk end);
  do old <- as_list (get_or_none alter "checks");
  Ok (dict_set t "alter" (PDict (dict_set alter "checks" (PList (old ++ [PDict chk'])%list)))).

Definition seq_of (v : pyval) : res (list pyval) :=
  match v with PList l | PTuple l => Ok l | PNone => Raise TypeError | _ => Raise TypeError end.

Definition set_unique_columns_from_alter (t stmt : dict) : res dict :=
  do cols <- as_list (tget t "columns");
  match cols with
  | [] => Ok t
  | _ =>
    do u <- (do x <- getitem stmt "unique"; as_dict' x);
    do ucols <- (do c <- getitem u "columns"; seq_of c);
    if Nat.eqb (List.length ucols) 1 then
      do cols' <- mapM (fun c => do n <- col_get c "name";
                                 if py_in_list n ucols then col_set c "unique" (PBool true) else Ok c) cols;
      Ok (dict_set t "columns" (PList cols'))
    else Ok t
  end.

Definition set_default_columns_from_alter (t stmt : dict) : res dict :=
  do cols <- as_list (tget t "columns");
  match cols with
  | [] => Ok t
  | _ =>
    do dflt <- (do x <- getitem stmt "default"; as_dict' x);
    do dc <- getitem dflt "columns";
    if truthy dc then
      do dcols <- seq_of dc;
      do v <- getitem dflt "value";
      do cols' <- mapM (fun c => do n <- col_get c "name";
                                 if py_in_list n dcols then col_set c "default" v else Ok c) cols;
      Ok (dict_set t "columns" (PList cols'))
    else Ok t
  end.

Definition append_statement_information_to_table (hooks : list (string * string)) (t stmt : dict) : res dict :=
  if dict_has stmt "columns" then prepare_alter_columns hooks t stmt
  else if dict_has stmt "columns_to_rename" then alter_rename_columns t stmt
  else if dict_has stmt "columns_to_drop" then alter_drop_columns t stmt
  else if dict_has stmt "columns_to_modify" then alter_modify_columns t stmt
  else if dict_has stmt "check" then process_check_in_statement t stmt
  else if dict_has stmt "unique" then do t1 <- set_alter_to_table_data t "unique" stmt; set_unique_columns_from_alter t1 stmt
  else if dict_has stmt "default" then do t1 <- set_alter_to_table_data t "default" stmt; set_default_columns_from_alter t1 stmt
  else if dict_has stmt "primary_key" then set_alter_to_table_data t "primary_key" stmt
  else Ok t.

(* ---------- Output.format ------------------------------------------------------------------------------ *)
Inductive entry := ETable (i : nat) | EOther (v : pyval).

Record ostate := mkO {
  o_tables : list dict;                  (* store of emitted table dicts, by creation index *)
  o_registry : list (table_id * nat);    (* tables_dict, newest binding first *)
  o_result : list entry                  (* final_result, in order *)
}.
Definition o_init : ostate := mkO [] [] [].

Definition lookup_table (reg : list (table_id * nat)) (id : table_id) : option nat :=
  match List.find (fun kv => table_id_eqb (fst kv) id) reg with Some kv => Some (snd kv) | None => None end.

Fixpoint set_nth {A} (l : list A) (n : nat) (v : A) : list A :=
  match l, n with
  | _ :: r, O => v :: r
  | x :: r, S k => x :: set_nth r k v
  | [], _ => []
  end.

Definition get_table_from_tables_data (st : ostate) (schema table : pyval) : res (nat * dict) :=
  do id <- get_table_id schema table;
  match lookup_table (o_registry st) id with
  | Some i => match nth_error (o_tables st) i with Some t => Ok (i, t) | None => Unsupported "registry index" end
  | None => Raise ValueError
  end.

Definition step (mode : string) (st : ostate) (stmt_v : pyval) : res ostate :=
  match mode_info mode with
  | None => Unsupported ("mode " ++ mode)
  | Some (hooks, fs) =>
    let schema_key := if String.eqb mode "bigquery" then "dataset" else "schema" in
    do stmt <- (match stmt_v with PDict d => Ok d | _ => Raise TypeError end);
    if dict_has stmt "index_name" || dict_has stmt "alter_table_name" then
      if truthy (get_or_none stmt "index_name") then
        (* add_index_to_table *)
        let sch := if truthy (get_or_none stmt schema_key) then get_or_none stmt schema_key else get_or_none stmt "schema" in
        do tn <- getitem stmt "table_name";
        do '(i, t) <- get_table_from_tables_data st sch tn;
        do s1 <- (if dict_has stmt schema_key then Ok (dict_del stmt schema_key)
                  else if dict_has stmt "schema" then Ok (dict_del stmt "schema") else Raise KeyError);
        let s2 := dict_del s1 "table_name" in
        do s3 <- (if negb (String.eqb mode "mssql")
                  then (if dict_has s2 "clustered" then Ok (dict_del s2 "clustered") else Raise KeyError) else Ok s2);
        do idx <- (match tget t "index" with PList l => Ok l | _ => Raise AttributeError end);
        Ok (mkO (set_nth (o_tables st) i (dict_set t "index" (PList (idx ++ [PDict s3])%list))) (o_registry st) (o_result st))
      else if truthy (get_or_none stmt "alter_table_name") then
        do sch <- getitem stmt "schema";
        do '(i, t) <- get_table_from_tables_data st sch (get_or_none stmt "alter_table_name");
        do t' <- append_statement_information_to_table hooks t stmt;
        Ok (mkO (set_nth (o_tables st) i t') (o_registry st) (o_result st))
      else Ok st
    else if truthy (get_or_none stmt "table_name") then
      do obj <- table_init mode stmt;
      do id <- get_table_id (get_or_none obj schema_key) (get_or_none obj "table_name");
      do out <- to_dict mode obj;
      let i := List.length (o_tables st) in
      Ok (mkO (o_tables st ++ [out])%list ((id, i) :: o_registry st) (o_result st ++ [ETable i])%list)
    else
      (* dialects_clean_up *)
      do data <- (if String.eqb mode "bigquery" && (truthy (get_or_none stmt "schema") || truthy (get_or_none stmt "sequences"))
                  then (if dict_has stmt "schema" then Ok (dict_del (dict_set stmt "dataset" (get_or_none stmt "schema")) "schema")
                        else Raise KeyError)
                  else Ok stmt);
      Ok (mkO (o_tables st) (o_registry st) (o_result st ++ [EOther (PDict data)])%list)
  end.

Definition flat_result (st : ostate) : list pyval :=
  map (fun e => match e with
                | ETable i => match nth_error (o_tables st) i with Some t => PDict t | None => PNone end
                | EOther v => v end) (o_result st).

(* ---------- group_by_type_result -------------------------------------------------------------------------- *)
Definition keys_map : list (string * string) :=
  [("table_name", "tables"); ("sequence_name", "sequences"); ("type_name", "types"); ("domain_name", "domains");
   ("schema_name", "schemas"); ("tablespace_name", "tablespaces"); ("database_name", "databases");
   ("value", "ddl_properties"); ("comments", "comments")].
Definition group_init : dict :=
  [("tables", PList []); ("types", PList []); ("sequences", PList []); ("domains", PList []); ("schemas", PList []);
   ("ddl_properties", PList []); ("comments", PList [])].

(* the bucket of an item: the first key of keys_map it contains *)
Definition bucket_of (item : dict) : option (string * string) :=
  List.find (fun kb => dict_has item (fst kb)) keys_map.

Definition group_step (acc : res dict) (item_v : pyval) : res dict :=
  do g <- acc;
  match item_v with
  | PDict item =>
    match bucket_of item with
    | None => Ok g
    | Some (key, bucket) =>
      let cur := match dict_get g bucket with Some (PList l) => l | _ => [] end in
      if String.eqb key "comments" then
        do cs <- (match get_or_none item "comments" with
                  | PList l | PTuple l => Ok l
                  | PStr s => Ok (map (fun c => PStr (String c "")) (s2l s))
                  | PDict d => Ok (map (fun kv => PStr (fst kv)) d)
                  | _ => Raise TypeError end);
        Ok (dict_set g bucket (PList (cur ++ cs)%list))
      else Ok (dict_set g bucket (PList (cur ++ [item_v])%list))
    end
  | PStr s =>
      (* `key in item` on a string is a substring test *)
      match List.find (fun kb => contains s (fst kb)) keys_map with
      | None => Ok g
      | Some (key, bucket) =>
        let cur := match dict_get g bucket with Some (PList l) => l | _ => [] end in
        if String.eqb key "comments" then Raise TypeError
        else Ok (dict_set g bucket (PList (cur ++ [item_v])%list))
      end
  | PList l | PTuple l =>
      match List.find (fun kb => py_in_list (PStr (fst kb)) l) keys_map with
      | None => Ok g
      | Some (key, bucket) =>
        let cur := match dict_get g bucket with Some (PList l) => l | _ => [] end in
        if String.eqb key "comments" then Raise TypeError
        else Ok (dict_set g bucket (PList (cur ++ [item_v])%list))
      end
  | _ => Raise TypeError
  end.

Definition group_by_type_result (flat : list pyval) : res pyval :=
  do g <- fold_left group_step flat (Ok group_init);
  Ok (PDict (if truthy (get_or_none g "comments") then g else dict_del g "comments")).

Definition format (mode : string) (group : bool) (parser_output : list pyval) : res pyval :=
  do st <- fold_left (fun acc s => do st <- acc; step mode st s) parser_output (Ok o_init);
  let flat := flat_result st in
  if group then group_by_type_result flat else Ok (PList flat).
