(* The tables of the current tree (generated) packaged for the LR driver. *)
From Coq Require Import String List ZArith NArith PArith Bool.
From SDP Require Import Base PyStr LR.
From SDP.Gen Require Import Grammar Tables.
Import ListNotations.

Definition term_id (name : string) : option positive := assoc name Grammar.terminals.
Definition end_id : positive := match term_id "$end" with Some p => p | None => 1%positive end.

Definition prod_rows : list (N * (N * nat)) :=
  number_from 0%N (map (fun p => (p_lhs p, List.length (p_rhs p))) Grammar.productions).
Definition prod_info_rows : list (N * production) := number_from 0%N Grammar.productions.

Definition action_map := build Tables.action_rows.
Definition goto_map := build Tables.goto_rows.
Definition defaulted_map := build1 Tables.defaulted.
Definition prod_map := build1 prod_rows.
Definition prod_info_map := build1 prod_info_rows.

Definition real_tables : tables :=
  mkTables (lookup action_map) (lookup goto_map) (lookup1 defaulted_map) (lookup1 prod_map) end_id.

Definition prod_info (p : N) : option production := lookup1 prod_info_map p.
