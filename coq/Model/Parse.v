(* One statement through the model: lexer -> LR driver -> semantic actions.
   The pipeline is written once, generically in the tables, and instantiated with the real ones. *)
From Coq Require Import String Ascii List ZArith NArith Bool.
From SDP Require Import Base PyStr Regex LR RealTables Lexer Actions.
Import ListNotations.
Open Scope string_scope.

Definition prod_str (pr : production) : string :=
  p_name pr ++ " -> " ++ match p_rhs_names pr with [] => "<empty>" | l => join " " l end.

Section Generic.
  Variable T : tables.
  Variable tid : string -> option positive.     (* terminal name -> id *)
  Variable pname : N -> option string.          (* production number -> "lhs -> rhs" *)

  Definition name_event (e : event) : res nevent :=
    match e with
    | EShift _ v => Ok (NShift v)
    | EReduce p => match pname p with
                   | Some s => Ok (NReduce s)
                   | None => Unsupported "unknown production number"
                   end
    | EError _ => Ok NError
    | EErrorEnd => Ok NErrorEnd
    | EAccept => Ok NAccept
    end.
  Fixpoint name_events (l : list event) : res (list nevent) :=
    match l with
    | [] => Ok []
    | e :: r => do n <- name_event e; do t <- name_events r; Ok (n :: t)
    end.

  Fixpoint toks_to_ids (l : list tok) : res (list token) :=
    match l with
    | [] => Ok []
    | (ty, v) :: r =>
      match tid ty with
      | Some p => do t <- toks_to_ids r; Ok ((p, v) :: t)
      | None => Unsupported ("unknown terminal " ++ ty)
      end
    end.

  (* tokens -> value *)
  Definition parse_tokens_g (norm silent : bool) (toks : list tok) : res (option pyval) :=
    do ids <- toks_to_ids toks;
    do evs <- lr_trace silent T ids;
    do nevs <- name_events evs;
    eval norm nevs [].

  (* lexemes -> value (the level the fragment theorems are stated at) *)
  Definition parse_lexemes_g (norm silent : bool) (lxs : list lexeme) : res (option pyval) :=
    do '(toks, _) <- classify_all flags0 lxs;
    parse_tokens_g norm silent toks.
End Generic.

Definition real_pname (p : N) : option string :=
  match prod_info p with Some pr => Some (prod_str pr) | None => None end.

Definition parse_tokens := parse_tokens_g real_tables term_id real_pname.
Definition parse_lexemes := parse_lexemes_g real_tables term_id real_pname.

(* statement text -> value : yacc.parse(statement) after set_default_flags_in_lexer *)
Definition parse_statement (norm silent : bool) (s : string) : res (option pyval) :=
  do lxs <- scan s;
  parse_lexemes norm silent lxs.
