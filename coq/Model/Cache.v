(* PLY's table-cache decision (yacc.yacc + LRTable.read_table) over the generated artefacts:
   the on-disk parsetab.py (Gen.Parsetab, read literally) and the freshly generated tables
   (Gen.Tables).  No proofs here. *)
From Coq Require Import String List ZArith NArith PArith Bool FMapPositive.
From SDP Require Import Base PyStr LR RealTables.
From SDP.Gen Require Import Grammar Tables Parsetab.
Import ListNotations.
Open Scope string_scope.

(* read_table: for k,(states,acts) in items: for x,y in zip(states,acts): tbl[x][k] = y *)
Definition add_entry (m : PM.t (PM.t Z)) (s : N) (k : positive) (a : Z) : PM.t (PM.t Z) :=
  let key := N.succ_pos s in
  let row := match PM.find key m with Some r => r | None => PM.empty Z end in
  PM.add key (PM.add k a row) m.

Definition expand_items (ids : list (string * positive)) (items : list (string * (list Z * list Z)))
  : option (PM.t (PM.t Z)) :=
  fold_left
    (fun acc item =>
       match acc with
       | None => None
       | Some m =>
         match assoc (fst item) ids with
         | None => None
         | Some k =>
           Some (fold_left (fun m' xy => add_entry m' (Z.to_N (fst xy)) k (snd xy))
                           (combine (fst (snd item)) (snd (snd item))) m)
         end
       end) items (Some (PM.empty (PM.t Z))).

Definition pt_action : option (PM.t (PM.t Z)) := expand_items Grammar.terminals Parsetab.pt_action_items.
Definition pt_goto : option (PM.t (PM.t Z)) := expand_items Grammar.nonterminals Parsetab.pt_goto_items.

Definition prod4_eqb (a b : string * string * N * string) : bool :=
  let '(s1, n1, l1, f1) := a in let '(s2, n2, l2, f2) := b in
  String.eqb s1 s2 && String.eqb n1 n2 && N.eqb l1 l2 && String.eqb f1 f2.
Fixpoint list_eqb {A} (eqb : A -> A -> bool) (l1 l2 : list A) : bool :=
  match l1, l2 with
  | [], [] => true
  | a :: r1, b :: r2 => eqb a b && list_eqb eqb r1 r2
  | _, _ => false
  end.

Definition map2_equal (m1 m2 : PM.t (PM.t Z)) : bool := PM.equal (PM.equal Z.eqb) m1 m2.

(* does the file on disk get used?  (signature equal to the grammar's, table version accepted) *)
Definition cache_used : bool := pt_present && pt_sig_matches && pt_tabversion_ok.

(* generic shape of the obligation and of the decision, so that proofs never unfold the big maps *)
Definition content_ok_of (used : bool) (pa pg : option (PM.t (PM.t Z))) (pp : list (string * string * N * string))
           (fa fg : PM.t (PM.t Z)) (fp : list (string * string * N * string)) : bool :=
  if used then
    match pa, pg with
    | Some a, Some g => map2_equal a fa && map2_equal g fg && list_eqb prod4_eqb pp fp
    | _, _ => false
    end
  else true.

(* yacc.yacc(): use the cached tables iff they were read and accepted, else regenerate *)
Definition in_use {A} (used : bool) (cached : option A) (fresh : A) : A :=
  if used then match cached with Some a => a | None => fresh end else fresh.

(* the single closed obligation: IF the cached file is used THEN it says what a fresh generation says *)
Definition cache_ok : bool :=
  content_ok_of cache_used pt_action pt_goto Parsetab.pt_productions action_map goto_map Parsetab.fresh_productions.

(* the cache states of the property; only the first one can make PLY use the file *)
Inductive cache_state :=
| CacheAsOnDisk        (* the file of the current tree *)
| CacheMissing         (* ImportError -> regenerate *)
| CacheStaleSignature  (* read_signature != signature -> regenerate *)
| CacheOldVersion.     (* VersionError -> regenerate *)
Definition used_in (c : cache_state) : bool :=
  match c with CacheAsOnDisk => cache_used | _ => false end.
