(* The lexer of ddl_parser.py: PLY's token loop driven by the generated rule regexes (scan),
   and the hand-modelled token functions t_EQ .. t_ID with their 11 flags + 2 counters (classify).
   Scanning does not depend on the flags and the flags do not depend on parsing, so
       lex s = classify_all flags0 (scan s).
   No proofs here. *)
From Coq Require Import String Ascii List ZArith NArith Bool.
From SDP Require Import Base PyStr Regex.
From SDP.Gen Require Tokens RegexAst.
Import ListNotations.
Open Scope string_scope.

(* ---------- scanning ----------------------------------------------------------------------- *)
Definition lexeme := (string * string)%type.      (* (rule name, matched text) *)

Fixpoint try_rules (fuel : nat) (rules : list (string * re)) (prev : option ascii) (s : list ascii)
  : res (option (string * pos)) :=
  match rules with
  | [] => Ok None
  | (name, r) :: rest =>
    match match_at fuel r prev s with
    | MYes p => Ok (Some (name, p))
    | MNo => try_rules fuel rest prev s
    | MFuel => OutOfFuel
    end
  end.

Fixpoint scan_loop (n : nat) (fuel : nat) (ignore : string) (rules : list (string * re))
         (prev : option ascii) (s : list ascii) : res (list lexeme) :=
  match n with
  | O => match s with [] => Ok [] | _ => OutOfFuel end
  | S n' =>
    match s with
    | [] => Ok []
    | c :: s' =>
      if has_char c ignore then scan_loop n' fuel ignore rules (Some c) s'
      else
        do m <- try_rules fuel rules prev s;
        match m with
        | None => Raise DDLParserError            (* t_error: Unknown symbol *)
        | Some (name, (p', rest, k)) =>
          match k with
          | O => Unsupported "lexer: empty match"
          | _ => do t <- scan_loop n' fuel ignore rules p' rest; Ok ((name, l2s (firstn k s)) :: t)
          end
        end
    end
  end.

Definition scan (s : string) : res (list lexeme) :=
  let l := s2l s in
  scan_loop (S (List.length l)) (default_fuel l) Tokens.lex_ignore RegexAst.lex_res None l.

(* ---------- flags -------------------------------------------------------------------------- *)
Record flags := mkFlags {
  is_table : bool; sequence : bool; last_token : string; columns_def : bool; after_columns : bool;
  check : bool; last_par : string; lp_open : N; is_alter : bool; is_like : bool; lt_open : Z
}.
(* what set_default_flags_in_lexer establishes: every attribute False (""/0), lt_open 0 *)
Definition flags0 : flags := mkFlags false false "" false false false "" 0%N false false 0%Z.

Definition set_last_token (f : flags) (t : string) : flags :=
  mkFlags (is_table f) (sequence f) t (columns_def f) (after_columns f) (check f) (last_par f) (lp_open f)
          (is_alter f) (is_like f) (lt_open f).

(* ---------- everything t_ID looks up about a word ------------------------------------------ *)
Record info := mkInfo {
  i_sym : option string;       (* symbol_tokens.get(value) *)
  i_skip : bool;               (* value in ["(", ")", ","] *)
  i_first : option string;     (* first_liners.get(upper) *)
  i_def : option string;       (* definition_statements *)
  i_common : option string;    (* common_statements *)
  i_coldef : option string;    (* columns_definition *)
  i_after : option string;     (* after_columns_tokens *)
  i_seq : option string;       (* sequence_reserved *)
  i_alter : option string;     (* alter_tokens *)
  i_if : bool;                 (* upper == "IF" *)
  i_tablespace : bool;         (* upper == "TABLESPACE" *)
  i_tag : bool;                (* some key of symbol_tokens_no_check occurs in value *)
  i_lt : Z; i_gt : Z;          (* value.count("<"), value.count(">") *)
  i_array : bool               (* value.startswith("ARRAY") *)
}.

Definition info_of (v : string) : info :=
  let u := upper v in
  mkInfo (assoc v Tokens.symbol_tokens)
         (mem v ["("; ")"; ","])
         (assoc u Tokens.first_liners) (assoc u Tokens.definition_statements) (assoc u Tokens.common_statements)
         (assoc u Tokens.columns_definition) (assoc u Tokens.after_columns_tokens) (assoc u Tokens.sequence_reserved)
         (assoc u Tokens.alter_tokens)
         (String.eqb u "IF") (String.eqb u "TABLESPACE")
         (existsb (fun kv => contains v (fst kv)) Tokens.symbol_tokens_no_check)
         (Z.of_nat (count_char "<"%char v)) (Z.of_nat (count_char ">"%char v))
         (startswith v "ARRAY").

Definition get_or {A} (o : option A) (d : A) : A := match o with Some x => x | None => d end.

Inductive vtag := Keep | Upper.

Definition exceptional_keys : list string :=
  ["SCHEMA"; "TABLE"; "DATABASE"; "TYPE"; "DOMAIN"; "TABLESPACE"; "CONSTRAINT"; "EXISTS"].

Definition is_token_column_name (f : flags) (i : info) : bool :=
  negb (i_skip i) && is_table f && negb (N.eqb (lp_open f) 0) && negb (is_like f)
  && (String.eqb (last_token f) "COMMA" || String.eqb (last_token f) "LP")
  && (match i_first i with Some _ => false | None => true end).

Definition is_creation_name (f : flags) (i : info) : bool :=
  negb (i_skip i) && negb (i_if i)
  && (mem (last_token f) exceptional_keys || (String.eqb (last_token f) "INDEX" && negb (is_table f)))
  && negb (i_tablespace i && String.eqb (last_token f) "INDEX").

(* after_columns_tokens() *)
Definition after_columns_tokens (f : flags) (i : info) (ty : string) : string * flags :=
  let ty1 := get_or (i_after i) ty in
  if negb (String.eqb ty1 "ID") then
    (ty1, mkFlags (is_table f) (sequence f) (last_token f) (columns_def f) true (check f) (last_par f) (lp_open f)
                  (is_alter f) (is_like f) (lt_open f))
  else if negb (after_columns f) && columns_def f then (get_or (i_coldef i) ty1, f)
  else (ty1, f).

Definition process_body_tokens (f : flags) (i : info) (ty : string) : string * flags :=
  if (String.eqb (last_par f) "RP" && N.eqb (lp_open f) 0) || (after_columns f && negb (columns_def f))
  then after_columns_tokens f i ty
  else if columns_def f then (get_or (i_coldef i) ty, f)
  else if sequence f then (get_or (i_seq i) "ID", f)
  else (ty, f).

Definition set_lexer_tags (f : flags) (ty : string) : flags :=
  if String.eqb ty "SEQUENCE" then
    mkFlags (is_table f) true (last_token f) (columns_def f) (after_columns f) (check f) (last_par f) (lp_open f)
            (is_alter f) (is_like f) (lt_open f)
  else if String.eqb ty "CHECK" then
    mkFlags (is_table f) (sequence f) (last_token f) (columns_def f) (after_columns f) true (last_par f) (lp_open f)
            (is_alter f) (is_like f) (lt_open f)
  else f.

(* tokens_not_columns_names(): ty is the type so far ("ID" or "RP") *)
Definition tokens_not_columns_names (f : flags) (i : info) (ty : string) : string * flags :=
  if negb (check f) && i_tag i then
    (* get_tag_symbol_value_and_increment *)
    let ty1 := if (0 <? i_lt i)%Z then "LT" else ty in
    let lt1 := if (0 <? i_lt i)%Z then (lt_open f + i_lt i)%Z else lt_open f in
    let ty2 := if (0 <? i_gt i)%Z then (if (0 <? i_lt i)%Z then ty1 else "RT") else ty1 in
    let lt2 := if (0 <? i_gt i)%Z then (lt1 - i_gt i)%Z else lt1 in
    (ty2, mkFlags (is_table f) (sequence f) (last_token f) (columns_def f) (after_columns f) (check f) (last_par f)
                  (lp_open f) (is_alter f) (is_like f) lt2)
  else if i_array i then ("ARRAY", f)
  else
    let ty1 :=
        if is_like f then get_or (i_after i) ty
        else if negb (is_table f) then get_or (i_def i) ty
        else if negb (String.eqb (last_token f) "COMMA") then get_or (i_common i) ty
        else if negb (columns_def f && after_columns f) then get_or (i_first i) ty
        else ty in
    let '(ty2, f2) := process_body_tokens f i ty1 in
    (ty2, set_lexer_tags f2 ty2).

Definition set_lexx_tags (f : flags) (ty : string) : flags :=
  (* set_parenthesis_tokens *)
  let f1 :=
      if String.eqb ty "RP" || String.eqb ty "LP" then
        let dec := String.eqb ty "RP" && negb (N.eqb (lp_open f) 0) in
        let lp := if dec then N.pred (lp_open f) else lp_open f in
        let ac := if dec && N.eqb lp 0 then true else after_columns f in
        mkFlags (is_table f) (sequence f) (last_token f) (columns_def f) ac (check f) ty lp
                (is_alter f) (is_like f) (lt_open f)
      else f in
  let f2 := if String.eqb ty "ALTER" then
              mkFlags (is_table f1) (sequence f1) (last_token f1) (columns_def f1) (after_columns f1) (check f1)
                      (last_par f1) (lp_open f1) true (is_like f1) (lt_open f1)
            else f1 in
  if String.eqb ty "LIKE" then
    mkFlags (is_table f2) (sequence f2) (last_token f2) (columns_def f2) (after_columns f2) (check f2)
            (last_par f2) (lp_open f2) (is_alter f2) true (lt_open f2)
  else if mem ty ["TYPE"; "DOMAIN"; "TABLESPACE"] then
    mkFlags false (sequence f2) (last_token f2) (columns_def f2) (after_columns f2) (check f2)
            (last_par f2) (lp_open f2) (is_alter f2) (is_like f2) (lt_open f2)
  else if mem ty ["TABLE"; "INDEX"] && negb (is_alter f2) then
    mkFlags true (sequence f2) (last_token f2) (columns_def f2) (after_columns f2) (check f2)
            (last_par f2) (lp_open f2) (is_alter f2) (is_like f2) (lt_open f2)
  else f2.

(* t_ID on the (comma-stripped) value; depends on the word only through its info *)
Definition t_id_core (f : flags) (i : info) : (string * vtag) * flags :=
  let ty0 := get_or (i_sym i) "ID" in
  if String.eqb ty0 "LP" then
    ((ty0, Keep),
     mkFlags (is_table f) (sequence f) "LP" true (after_columns f) (check f) (last_par f) (lp_open f + 1)%N
             (is_alter f) (is_like f) (lt_open f))
  else
    let '(ty1, f1) :=
        if is_token_column_name f i || String.eqb (last_token f) "DOT" then ("ID", f)
        else if negb (String.eqb ty0 "DQ_STRING") && is_creation_name f i then ("ID", f)
        else tokens_not_columns_names f i ty0 in
    let ty2 := if is_alter f1 then get_or (i_alter i) ty1 else ty1 in
    (* capitalize_tokens *)
    let vt := if negb (String.eqb ty2 "ID") && negb (mem ty2 ["LT"; "RT"]) then Upper else Keep in
    (* commat_type *)
    let ty3 := if String.eqb ty2 "COMMA" && negb (Z.eqb (lt_open f1) 0) then "COMMAT" else ty2 in
    let f2 := set_lexx_tags f1 ty3 in
    ((ty3, vt), set_last_token f2 ty3).

Definition apply_vtag (t : vtag) (v : string) : string := match t with Keep => v | Upper => upper v end.

Definition strip_trailing_comma (v : string) : string :=
  if (1 <? String.length v)%nat && endswith v "," then drop_last v else v.

Definition tok := (string * string)%type.     (* (type, value) *)

Definition classify (f : flags) (lx : lexeme) : res (tok * flags) :=
  let '(rule, text) := lx in
  if String.eqb rule "t_EQ" then Ok (("EQ", text), set_last_token f "EQ")
  else if String.eqb rule "t_DOT" then Ok (("DOT", text), set_last_token f "DOT")
  else if String.eqb rule "t_STRING_BASE" then Ok (("STRING_BASE", text), set_last_token f "STRING_BASE")
  else if String.eqb rule "t_DQ_STRING" then Ok (("DQ_STRING", text), set_last_token f "DQ_STRING")
  else if String.eqb rule "t_COLLATE" then
    let ty := if negb (after_columns f) then "COLLATE" else "ID" in Ok ((ty, text), set_last_token f ty)
  else if String.eqb rule "t_AUTOINCREMENT" then
    let ty := if negb (after_columns f) then "AUTOINCREMENT" else "ID" in Ok ((ty, text), set_last_token f ty)
  else if String.eqb rule "t_ID" then
    let v := strip_trailing_comma text in
    let '((ty, vt), f') := t_id_core f (info_of v) in
    Ok ((ty, apply_vtag vt v), f')
  else Unsupported ("lexer rule " ++ rule).

Fixpoint classify_all (f : flags) (l : list lexeme) : res (list tok * flags) :=
  match l with
  | [] => Ok ([], f)
  | lx :: r =>
    do '(t, f1) <- classify f lx;
    do '(ts, f2) <- classify_all f1 r;
    Ok (t :: ts, f2)
  end.

Definition lex (s : string) : res (list tok * flags) :=
  do l <- scan s; classify_all flags0 l.
