(* Parser.run: parse_data (Model/Pre.v) with the real statement parser, Output.format, json_dump. *)
From Coq Require Import String Ascii List ZArith NArith Bool.
From SDP Require Import Base PyStr Regex Json LR RealTables Lexer Actions Parse Pre Output.
From SDP.Gen Require Tokens.
Import ListNotations.
Open Scope string_scope.

(* did PLY report a syntax error (p_error was called) while parsing the statement in the given mode? *)
Definition is_error_event (e : event) : bool := match e with EError _ | EErrorEnd => true | _ => false end.
Definition statement_had_error (silent : bool) (s : string) : bool :=
  match scan s with
  | Ok lxs =>
    match classify_all flags0 lxs with
    | Ok (toks, _) =>
      match toks_to_ids term_id toks with
      | Ok ids => match lr_trace silent real_tables ids with Ok evs => existsb is_error_event evs | _ => false end
      | _ => false
      end
    | _ => false
    end
  | _ => false
  end.
(* Parser.parse_statement: a SimpleDDLParserException (syntax error with silent=False, or t_error) is swallowed when silent (fix of D8),
   raised otherwise; any other exception of a grammar action is swallowed when a syntax error was recorded before it (fix b0266a0:
   only the silent run gets past p_error), raised otherwise *)
Definition parse_stmt_of (norm silent : bool) (s : string) : res (option pyval) :=
  match parse_statement norm silent s with
  | Raise DDLParserError => if silent then Ok None else Raise DDLParserError
  | Raise SimpleDDLParserException => if silent then Ok None else Raise SimpleDDLParserException
  | Raise e => if silent && statement_had_error silent s then Ok None else Raise e
  | r => r
  end.

(* the statements handed to the grammar, as markers, plus SET entries and comments (correspondence layer A) *)
Definition statements_of (data : string) : res (list pyval) :=
  parse_data (fun s => Ok (Some (PDict [("__stmt__", PStr s)]))) data.

Definition run (norm silent : bool) (mode : string) (group json : bool) (data : string) : res pyval :=
  if negb (mem mode Tokens.modes) then Raise SimpleDDLParserException
  else
    do po <- parse_data (parse_stmt_of norm silent) data;
    do out <- Output.format mode group po;
    if json then Ok (PStr (json_dumps out)) else Ok out.

(* ---------- object state across run() calls (C14) ------------------------------------------------------ *)
(* what a DDLParser object carries from one run() to the next *)
Record carried := mkCarried { k_lm : lm; k_comments : list string; k_tables : list pyval }.
Definition carried0 : carried := mkCarried lm0 [] [].

(* one `self.<attr> = <initial value>` statement at the top of parse_data (read off the source: Gen) *)
Definition reset_one (c : carried) (kv : string * pyval) : carried :=
  let m := k_lm c in
  match kv with
  | ("statement", PNone) => mkCarried (mkLM None (set_line m) (set_was_in_line m) (multi_line_comment m) (block_comments m)) (k_comments c) (k_tables c)
  | ("set_line", PNone) => mkCarried (mkLM (statement m) None (set_was_in_line m) (multi_line_comment m) (block_comments m)) (k_comments c) (k_tables c)
  | ("set_was_in_line", PBool false) => mkCarried (mkLM (statement m) (set_line m) false (multi_line_comment m) (block_comments m)) (k_comments c) (k_tables c)
  | ("multi_line_comment", PBool false) => mkCarried (mkLM (statement m) (set_line m) (set_was_in_line m) false (block_comments m)) (k_comments c) (k_tables c)
  | ("block_comments", PList []) => mkCarried (mkLM (statement m) (set_line m) (set_was_in_line m) (multi_line_comment m) []) (k_comments c) (k_tables c)
  | ("comments", PList []) => mkCarried m [] (k_tables c)
  | ("tables", PList []) => mkCarried m (k_comments c) []
  | _ => c
  end.
Definition start_of_run (c : carried) : carried := fold_left reset_one Tokens.parse_data_resets c.

Section Obj.
  Variable parse_stmt : string -> res (option pyval).
  Definition parse_data_obj (c : carried) (data : string) : res (carried * list pyval) :=
    let s := start_of_run c in
    do d <- pre_process_data data;
    do lines <- split_lines d;
    do '(m, (tbls, cms)) <- run_lines parse_stmt (k_lm s) lines false;
    let tables := (k_tables s ++ tbls)%list in
    let comments := (k_comments s ++ cms)%list in
    Ok (mkCarried m comments tables,
        (tables ++ match comments with [] => [] | cs => [PDict [("comments", PList (map PStr cs))]] end)%list).
End Obj.

(* run() on an object with carried state *)
Definition run_obj (norm silent : bool) (c : carried) (mode : string) (group json : bool) (data : string)
  : res (carried * pyval) :=
  if negb (mem mode Tokens.modes) then Raise SimpleDDLParserException
  else
    do '(c', po) <- parse_data_obj (parse_stmt_of norm silent) c data;
    do out <- Output.format mode group po;
    Ok (c', if json then PStr (json_dumps out) else out).

(* ---------- several objects and PLY's module globals (C15) ----------------------------------------------- *)
Record pobj := mkObj { o_ddl : string; o_norm : bool; o_silent : bool; o_state : carried }.
Record world := mkWorld { w_objs : list (nat * pobj); w_last : option nat (* most recently constructed *) }.

Fixpoint wget (l : list (nat * pobj)) (i : nat) : option pobj :=
  match l with [] => None | (j, o) :: r => if Nat.eqb i j then Some o else wget r i end.
Fixpoint wset (l : list (nat * pobj)) (i : nat) (o : pobj) : list (nat * pobj) :=
  match l with
  | [] => [(i, o)]
  | (j, x) :: r => if Nat.eqb i j then (i, o) :: r else (j, x) :: wset r i o
  end.

Inductive op := Construct (i : nat) (ddl : string) (norm silent : bool) | Run (i : nat) (mode : string) (group json : bool).

(* whose parser (bound productions => normalize_names, silent) and lexer a run of object i goes through:
   its own iff parse_statement calls self.yacc.parse(..., lexer=self.lexer)  (Gen.own_parser / own_lexer) *)
Definition settings_used (w : world) (i : nat) : option nat :=
  if Tokens.own_parser && Tokens.own_lexer then Some i else w_last w.

Definition exec1 (w : world) (o : op) : world * option (res pyval) :=
  match o with
  | Construct i ddl norm silent => (mkWorld (wset (w_objs w) i (mkObj ddl norm silent carried0)) (Some i), None)
  | Run i mode group json =>
    match wget (w_objs w) i, settings_used w i with
    | Some me, Some j =>
      match wget (w_objs w) j with
      | Some other =>
        match run_obj (o_norm other) (o_silent other) (o_state me) mode group json (o_ddl me) with
        | Ok (c', v) => (mkWorld (wset (w_objs w) i (mkObj (o_ddl me) (o_norm me) (o_silent me) c')) (w_last w), Some (Ok v))
        | Raise e => (w, Some (Raise e))
        | Unsupported s => (w, Some (Unsupported s))
        | OutOfFuel => (w, Some OutOfFuel)
        end
      | None => (w, Some (Raise AttributeError))
      end
    | _, _ => (w, Some (Raise AttributeError))
    end
  end.

Fixpoint exec (w : world) (ops : list op) : list (option (res pyval)) :=
  match ops with
  | [] => []
  | o :: r => let '(w', out) := exec1 w o in out :: exec w' r
  end.

(* ---------- files, dump, command line (C19) ------------------------------------------------------------------ *)
Definition basename (path : string) : string := last (split path "/") "".
(* os.path.basename(file_path).split(".")[0] *)
Definition dump_stem (file_path : string) : string := hd "" (split (basename file_path) ".").
Definition dump_target (dump_path file_path : string) : string := dump_path ++ "/" ++ dump_stem file_path ++ "_schema.json".

(* cli.correct_extension *)
Definition correct_extension (file_name : string) : bool :=
  match split file_name "." with
  | _ :: ext :: _ => mem ext ["ddl"; "sql"; "hql"; ""; "bql"]
  | _ => false
  end.

Definition fs := list (string * string).
Section Files.
  Variable decode : string -> string -> res string.        (* encoding -> bytes -> text : oracle *)
  Variable run_text : string -> string -> res pyval.        (* text -> output_mode -> result of DDLParser(text).run(...) *)
  Variable json_indent1 : pyval -> string.                  (* json.dump(..., indent=1) : oracle *)

  (* parse_from_file(path, encoding, dump=..., dump_path=..., output_mode=...) on an abstract file system *)
  Definition parse_from_file (files : fs) (path enc mode : string) (dump : bool) (dump_path : string) : res (fs * pyval) :=
    match assoc path files with
    | None => Raise ValueError
    | Some bytes =>
      do text <- decode enc bytes;
      do v <- run_text text mode;
      Ok (if dump then (dump_target dump_path path, json_indent1 v) :: files else files, v)
    end.

  (* sdp <dir>: every listed file with an accepted extension, each as one API call, in listing order *)
  Definition cli_dir (files : fs) (dir : string) (listing : list string) (mode target : string) (no_dump : bool)
    : res (fs * list pyval) :=
    fold_left (fun acc name =>
                 do '(f, outs) <- acc;
                 do '(f', v) <- parse_from_file f (dir ++ "/" ++ name) "utf-8" mode (negb no_dump) target;
                 Ok (f', (outs ++ [v])%list))
              (filter correct_extension listing) (Ok (files, [])).
End Files.
