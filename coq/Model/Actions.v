(* Semantic actions (the p_* functions) as functions over pyval, dispatched by the production's
   text "lhs -> rhs ..." (never by number), and the value-stack evaluation of an LR event trace.
   Productions not modelled return Unsupported.  No proofs here. *)
From Coq Require Import String Ascii List ZArith NArith Bool.
From SDP Require Import Base PyStr.
Import ListNotations.
Open Scope string_scope.

(* ---------- dict helpers (insertion ordered) ------------------------------------------------ *)
Fixpoint dict_set (d : list (string * pyval)) (k : string) (v : pyval) : list (string * pyval) :=
  match d with
  | [] => [(k, v)]
  | (k', v') :: r => if String.eqb k k' then (k, v) :: r else (k', v') :: dict_set r k v
  end.
Definition dict_get (d : list (string * pyval)) (k : string) : option pyval := assoc k d.
Definition dict_update (d e : list (string * pyval)) : list (string * pyval) :=
  fold_left (fun acc kv => dict_set acc (fst kv) (snd kv)) e d.
Definition dict_has (d : list (string * pyval)) (k : string) : bool := assoc_mem k d.

Definition pystr_eq (v : pyval) (s : string) : bool :=
  match v with PStr t => String.eqb t s | _ => false end.
(* `x in p_list` for a string x: equality with some element (non-strings never equal a string) *)
Definition list_has_str (l : list pyval) (s : string) : bool := existsb (fun v => pystr_eq v s) l.

Definition last_val (l : list pyval) : pyval := last l PNone.

(* named events: what evaluation needs to know *)
Inductive nevent :=
| NShift (v : string)
| NReduce (prod : string)        (* "lhs -> sym sym ..." *)
| NError
| NErrorEnd
| NAccept.

(* number of right-hand-side symbols of "lhs -> a b c" *)
Definition prod_arity (p : string) : nat :=
  match words p with
  | _ :: _ :: rhs => match rhs with ["<empty>"] => 0 | _ => List.length rhs end
  | _ => 0
  end.

(* ---------- p_id ---------------------------------------------------------------------------- *)
Definition first_c (s : string) : option ascii := match s with String c _ => Some c | _ => None end.
Definition normalize_id (s : string) : string :=
  (* for (start,end) in [(`,`),(",") ,([,])]: if startswith and endswith: strip that ONE pair and stop (break) *)
  let hit (s : string) (a b : ascii) : bool :=
      (match first_c s with Some c => Ascii.eqb c a | None => false end)
      && (match last_char s with Some c => Ascii.eqb c b | None => false end) in
  let strip1 (s : string) : string := take (String.length s - 2) (drop 1 s) in
  if (2 <? String.length s)%nat then
    if hit s "`"%char "`"%char then strip1 s
    else if hit s """"%char """"%char then strip1 s
    else if hit s "["%char "]"%char then strip1 s
    else s
  else s.

(* ---------- the actions ---------------------------------------------------------------------- *)
Definition as_str (v : pyval) : res string :=
  match v with PStr s => Ok s | _ => Raise TypeError end.
Definition as_dict (v : pyval) : res (list (string * pyval)) :=
  match v with PDict d => Ok d | _ => Raise TypeError end.

Definition py_int (v : pyval) : res pyval :=
  match v with
  | PStr s => match int_of_string s with Some z => Ok (PInt z) | None => Raise ValueError end
  | PInt z => Ok (PInt z)
  | PBool b => Ok (PInt (if b then 1 else 0))
  | _ => Raise TypeError
  end.

(* p_expression_seq; args = p[1..] *)
Definition act_expression_seq (args : list pyval) : res pyval :=
  match args with
  | [e] => Ok e
  | e :: rest =>
    do d <- as_dict e;
    match rest with
    | [k] => do ks <- as_str k; Ok (PDict (dict_update d [(lower ks, PBool true)]))
    | [k; v] =>
        do ks <- as_str k;
        if String.eqb ks "NO" then do vs <- as_str v; Ok (PDict (dict_update d [(lower vs, PBool false)]))
        else do n <- py_int v; Ok (PDict (dict_update d [(lower ks, n)]))
    | [k; k2; v] =>
        do ks <- as_str k; do k2s <- as_str k2; do n <- py_int v;
        Ok (PDict (dict_update d [(lower ks ++ "_" ++ lower k2s, n)]))
    | _ => Unsupported "p_expression_seq arity"
    end
  | [] => Unsupported "p_expression_seq arity"
  end.

(* p_seq_name *)
Definition act_seq_name (args : list pyval) : res pyval :=
  match args with
  | [_; name] => Ok (PDict [("schema", PNone); ("sequence_name", name)])
  | [_; schema; _; name] => Ok (PDict [("schema", schema); ("sequence_name", name)])
  | _ => Unsupported "p_seq_name arity"
  end.

(* p_create_seq: add_if_not_exists(p[0]=None, p_list) *)
Definition act_create_seq (args : list pyval) : res pyval :=
  if list_has_str args "EXISTS" then Raise TypeError else Ok PNone.

(* TableSpaces.get_tablespace_data(p_list[1:]) for the forms without properties *)
Definition act_tablespace (args : list pyval) : res pyval :=
  (* args = [CREATE; ...; name] *)
  match args with
  | _ :: second :: rest =>
    do s2 <- as_str second;
    do '(ty, temp) <-
       (if String.eqb s2 "TABLESPACE" then Ok (PNone, false)
        else if String.eqb (upper s2) "TEMPORARY" then Ok (PNone, true)
        else match rest with
             | third :: _ => do s3 <- as_str third; Ok (PStr s2, String.eqb (upper s3) "TEMPORARY")
             | [] => Raise IndexError
             end);
    let name := last_val args in
    match name with
    | PDict _ => Unsupported "tablespace properties"
    | _ => Ok (PDict [("tablespace_name", name); ("properties", PNone); ("type", ty); ("temporary", PBool temp)])
    end
  | _ => Raise IndexError
  end.

(* p_database_base for CREATE DATABASE id *)
Definition act_database_base (args : list pyval) : res pyval :=
  match args with
  | [_; _; name] => match name with PDict _ => Unsupported "database_base clone" | _ => Ok (PDict [("database_name", name)]) end
  | _ => Unsupported "database_base form"
  end.

(* p_create_schema for `c_schema id` and `c_schema IF NOT EXISTS id` (c_schema value None) *)
Definition act_create_schema (args : list pyval) : res pyval :=
  match args with
  | [PNone; PStr name] =>
      if String.eqb name "AUTHORIZATION" || String.eqb name "EXISTS" || String.eqb name "=" || String.eqb name "COMMENT" || String.eqb name "."
      then Unsupported "create_schema: special word as name"
      else Ok (PDict [("schema_name", PStr (replace name "`" ""))])
  | [PNone; PStr a; PStr b; PStr x; PStr name] =>
      if negb (String.eqb a "IF" && String.eqb b "NOT" && String.eqb x "EXISTS") then Unsupported "create_schema form"
      else if String.eqb name "AUTHORIZATION" || String.eqb name "=" || String.eqb name "COMMENT" || String.eqb name "."
      then Unsupported "create_schema: special word as name"
      else Ok (PDict [("if_not_exists", PBool true); ("schema_name", PStr (replace name "`" ""))])
  | _ => Unsupported "create_schema form"
  end.

Definition action (norm : bool) (prod : string) (args : list pyval) : res pyval :=
  match words prod with
  | lhs :: _ :: _ =>
    if String.eqb lhs "id" then
      match args with
      | [PStr s] => Ok (PStr (if norm then normalize_id s else s))
      | _ => Unsupported "p_id"
      end
    else if String.eqb lhs "create_seq" then act_create_seq args
    else if String.eqb lhs "seq_name" then act_seq_name args
    else if String.eqb prod "expr -> seq_name" || startswith prod "expr -> expr INCREMENT"
            || startswith prod "expr -> expr START" || startswith prod "expr -> expr MINVALUE"
            || startswith prod "expr -> expr MAXVALUE" || startswith prod "expr -> expr NO M"
            || startswith prod "expr -> expr CACHE" || String.eqb prod "expr -> expr NOORDER"
            || String.eqb prod "expr -> expr ORDER"
         then act_expression_seq args
    else if String.eqb prod "expr -> CREATE TABLESPACE id" || String.eqb prod "expr -> CREATE id TABLESPACE id"
            || String.eqb prod "expr -> CREATE id id TABLESPACE id" then act_tablespace args
    else if String.eqb prod "database_base -> CREATE DATABASE id" then act_database_base args
    else if String.eqb prod "create_database -> database_base" || String.eqb prod "expr -> create_database"
            || String.eqb prod "expr -> create_schema" then
      match args with [PDict d] => Ok (PDict d) | _ => Unsupported "unit production on a non-dict" end
    else if String.eqb prod "c_schema -> CREATE SCHEMA" then Ok PNone
    else if String.eqb prod "create_schema -> c_schema id" || String.eqb prod "create_schema -> c_schema IF NOT EXISTS id"
         then act_create_schema args
    else Unsupported ("action " ++ prod)
  | _ => Unsupported ("action " ++ prod)
  end.

(* ---------- evaluation of a named trace ------------------------------------------------------ *)
Fixpoint eval (norm : bool) (evs : list nevent) (vs : list pyval) : res (option pyval) :=
  match evs with
  | [] => Unsupported "trace ended without accept"
  | NShift v :: r => eval norm r (PStr v :: vs)
  | NReduce p :: r =>
      let n := prod_arity p in
      do v <- action norm p (rev (firstn n vs));
      eval norm r (v :: skipn n vs)
  | NError :: r => eval norm r []
  | NErrorEnd :: _ => Ok None
  | NAccept :: _ => Ok (Some (hd PNone vs))
  end.
