(* Semantic actions (the p_* functions) as functions over pyval, dispatched by the production's
   text "lhs -> rhs ..." (never by number), and the value-stack evaluation of an LR event trace.
   Productions not modelled return Unsupported.  No proofs here. *)
From Coq Require Import String Ascii List ZArith NArith Bool.
From SDP Require Import Base PyStr.
Import ListNotations.
Open Scope string_scope.

(* ---------- dict helpers (insertion ordered) ------------------------------------------------ *)
Fixpoint dict_set (d : list (string * pyval)) (k : string) (v : pyval) : list (string * pyval) :=
  match d with
  | [] => [(k, v)]
  | (k', v') :: r => if String.eqb k k' then (k, v) :: r else (k', v') :: dict_set r k v
  end.
Definition dict_get (d : list (string * pyval)) (k : string) : option pyval := assoc k d.
Definition dict_update (d e : list (string * pyval)) : list (string * pyval) :=
  fold_left (fun acc kv => dict_set acc (fst kv) (snd kv)) e d.
Definition dict_has (d : list (string * pyval)) (k : string) : bool := assoc_mem k d.

Definition pystr_eq (v : pyval) (s : string) : bool :=
  match v with PStr t => String.eqb t s | _ => false end.
(* `x in p_list` for a string x: equality with some element (non-strings never equal a string) *)
Definition list_has_str (l : list pyval) (s : string) : bool := existsb (fun v => pystr_eq v s) l.

Definition last_val (l : list pyval) : pyval := last l PNone.

(* named events: what evaluation needs to know *)
Inductive nevent :=
| NShift (v : string)
| NReduce (prod : string)        (* "lhs -> sym sym ..." *)
| NError
| NErrorEnd
| NAccept.

(* number of right-hand-side symbols of "lhs -> a b c" *)
Definition prod_arity (p : string) : nat :=
  match words p with
  | _ :: _ :: rhs => match rhs with ["<empty>"] => 0 | _ => List.length rhs end
  | _ => 0
  end.

(* ---------- p_id ---------------------------------------------------------------------------- *)
Definition first_c (s : string) : option ascii := match s with String c _ => Some c | _ => None end.
Definition normalize_id (s : string) : string :=
  (* for (start,end) in [(`,`),(",") ,([,])]: if startswith and endswith: strip that ONE pair and stop (break) *)
  let hit (s : string) (a b : ascii) : bool :=
      (match first_c s with Some c => Ascii.eqb c a | None => false end)
      && (match last_char s with Some c => Ascii.eqb c b | None => false end) in
  let strip1 (s : string) : string := take (String.length s - 2) (drop 1 s) in
  if (2 <? String.length s)%nat then
    if hit s "`"%char "`"%char then strip1 s
    else if hit s """"%char """"%char then strip1 s
    else if hit s "["%char "]"%char then strip1 s
    else s
  else s.

(* ---------- the actions ---------------------------------------------------------------------- *)
Definition as_str (v : pyval) : res string :=
  match v with PStr s => Ok s | _ => Raise TypeError end.
Definition as_dict (v : pyval) : res (list (string * pyval)) :=
  match v with PDict d => Ok d | _ => Raise TypeError end.

Definition py_int (v : pyval) : res pyval :=
  match v with
  | PStr s => match int_of_string s with Some z => Ok (PInt z) | None => Raise ValueError end
  | PInt z => Ok (PInt z)
  | PBool b => Ok (PInt (if b then 1 else 0))
  | _ => Raise TypeError
  end.

(* p_expression_seq; args = p[1..] *)
Definition act_expression_seq (args : list pyval) : res pyval :=
  match args with
  | [e] => Ok e
  | e :: rest =>
    do d <- as_dict e;
    match rest with
    | [k] => do ks <- as_str k; Ok (PDict (dict_update d [(lower ks, PBool true)]))
    | [k; v] =>
        do ks <- as_str k;
        if String.eqb ks "NO" then do vs <- as_str v; Ok (PDict (dict_update d [(lower vs, PBool false)]))
        else do n <- py_int v; Ok (PDict (dict_update d [(lower ks, n)]))
    | [k; k2; v] =>
        do ks <- as_str k; do k2s <- as_str k2; do n <- py_int v;
        Ok (PDict (dict_update d [(lower ks ++ "_" ++ lower k2s, n)]))
    | _ => Unsupported "p_expression_seq arity"
    end
  | [] => Unsupported "p_expression_seq arity"
  end.

(* p_seq_name *)
Definition act_seq_name (args : list pyval) : res pyval :=
  match args with
  | [_; name] => Ok (PDict [("schema", PNone); ("sequence_name", name)])
  | [_; schema; _; name] => Ok (PDict [("schema", schema); ("sequence_name", name)])
  | _ => Unsupported "p_seq_name arity"
  end.

(* p_create_seq: add_if_not_exists(p[0]=None, p_list) *)
Definition act_create_seq (args : list pyval) : res pyval :=
  if list_has_str args "EXISTS" then Raise TypeError else Ok PNone.

(* TableSpaces.get_tablespace_data(p_list[1:]) for the forms without properties *)
Definition act_tablespace (args : list pyval) : res pyval :=
  (* args = [CREATE; ...; name] *)
  match args with
  | _ :: second :: rest =>
    do s2 <- as_str second;
    do '(ty, temp) <-
       (if String.eqb s2 "TABLESPACE" then Ok (PNone, false)
        else if String.eqb (upper s2) "TEMPORARY" then Ok (PNone, true)
        else match rest with
             | third :: _ => do s3 <- as_str third; Ok (PStr s2, String.eqb (upper s3) "TEMPORARY")
             | [] => Raise IndexError
             end);
    let name := last_val args in
    match name with
    | PDict _ => Unsupported "tablespace properties"
    | _ => Ok (PDict [("tablespace_name", name); ("properties", PNone); ("type", ty); ("temporary", PBool temp)])
    end
  | _ => Raise IndexError
  end.

(* p_database_base for CREATE DATABASE id *)
Definition act_database_base (args : list pyval) : res pyval :=
  match args with
  | [_; _; name] => match name with PDict _ => Unsupported "database_base clone" | _ => Ok (PDict [("database_name", name)]) end
  | _ => Unsupported "database_base form"
  end.

(* p_create_schema for `c_schema id` and `c_schema IF NOT EXISTS id` (c_schema value None) *)
Definition act_create_schema (args : list pyval) : res pyval :=
  match args with
  | [PNone; PStr name] =>
      if String.eqb name "AUTHORIZATION" || String.eqb name "EXISTS" || String.eqb name "=" || String.eqb name "COMMENT" || String.eqb name "."
      then Unsupported "create_schema: special word as name"
      else Ok (PDict [("schema_name", PStr (replace name "`" ""))])
  | [PNone; PStr a; PStr b; PStr x; PStr name] =>
      if negb (String.eqb a "IF" && String.eqb b "NOT" && String.eqb x "EXISTS") then Unsupported "create_schema form"
      else if String.eqb name "AUTHORIZATION" || String.eqb name "=" || String.eqb name "COMMENT" || String.eqb name "."
      then Unsupported "create_schema: special word as name"
      else Ok (PDict [("if_not_exists", PBool true); ("schema_name", PStr (replace name "`" ""))])
  | _ => Unsupported "create_schema form"
  end.

(* ---------- CREATE TABLE: core column syntax ---------------------------------------------------------- *)
Definition remove_par (l : list pyval) : list pyval :=
  filter (fun v => negb (pystr_eq v "(" || pystr_eq v ")")) l.
Definition is_pdict (v : pyval) : bool := match v with PDict _ => true | _ => false end.
Definition starts_with_digit (s : string) : bool := match s with String c _ => is_digit_c c | _ => false end.

(* p_create_table for `CREATE TABLE` (no IF NOT EXISTS / OR REPLACE / modifiers) *)
Definition act_create_table (args : list pyval) : res pyval :=
  match args with
  | [PStr "CREATE"; PStr "TABLE"] => Ok (PDict [])
  | _ => Unsupported "create_table form"
  end.

(* p_t_name *)
Definition act_t_name (args : list pyval) : res pyval :=
  match args with
  | [name] => Ok (PDict [("schema", PNone); ("table_name", name); ("columns", PList []); ("checks", PList [])])
  | [schema; _; name] => Ok (PDict [("schema", schema); ("table_name", name); ("columns", PList []); ("checks", PList [])])
  | _ => Unsupported "t_name form"
  end.

(* p_table_name : create_table t_name *)
Definition act_table_name (args : list pyval) : res pyval :=
  match args with
  | [PDict a; PDict b] => Ok (PDict (dict_update a b))
  | _ => Unsupported "table_name form"
  end.

(* words that p_c_type / process_type / process_array_types treat specially *)
Definition plain_type_word (w : string) : bool :=
  negb (contains w "ARRAY") && negb (contains w "<") && negb (contains w "[") && negb (contains w ".")
  && negb (String.eqb (lower w) "distkey") && negb (String.eqb (lower w) "encode")
  && negb (String.eqb w "ENUM") && negb (String.eqb w "SET") && negb (contains (upper w) "IDENTITY")
  && String.eqb (strip w) w && negb (String.eqb w "").

(* p_c_type for `id` and `id id` *)
Definition act_c_type (args : list pyval) : res pyval :=
  match args with
  | [PStr w] => if plain_type_word w then Ok (PDict [("type", PStr w)]) else Unsupported "c_type: special type word"
  | [PStr w1; PStr w2] =>
      if plain_type_word w1 && plain_type_word w2 then Ok (PDict [("type", PStr (w1 ++ " " ++ w2))])
      else Unsupported "c_type: special type word"
  | _ => Unsupported "c_type form"
  end.

(* Column.get_size on digit strings *)
Definition size_int (s : string) : res pyval :=
  if isnumeric s then match int_of_string s with Some z => Ok (PInt z) | None => Raise ValueError end
  else Unsupported "size word is not a digit string".

Definition colname_bad (name : string) : bool := String.eqb name "KEY" || String.eqb name ".".
(* p_column *)
Definition act_column (args : list pyval) : res pyval :=
  match args with
  | [PStr name; PDict ct] =>
      if colname_bad name then Unsupported "column: KEY / dot as name"
      else match ct with
           | [("type", PStr ty)] => Ok (PDict [("name", PStr name); ("type", PStr ty); ("size", PNone)])
           | _ => Unsupported "column: c_type with properties"
           end
  | [PDict col; PStr "("; PStr n; PStr ")"] =>
      if dict_has col "index_stmt" || dict_has col "identity" then Unsupported "column: index / identity"
      else do z <- size_int n; Ok (PDict (dict_set col "size" z))
  | [PDict col; PStr "("; PStr p; PStr ","; PStr sc; PStr ")"] =>
      if dict_has col "index_stmt" || dict_has col "identity" then Unsupported "column: index / identity"
      else do a <- size_int p; do b <- size_int sc; Ok (PDict (dict_set col "size" (PTuple [a; b])))
  | _ => Unsupported "column form"
  end.

Definition adict := list (string * pyval).
Definition getb (d : adict) (k : string) : bool := match dict_get d k with Some (PBool b) => b | _ => false end.
Fixpoint adel (d : adict) (k : string) : adict :=
  match d with [] => [] | (k', v) :: r => if String.eqb k k' then r else (k', v) :: adel r k end.

(* p_defcolumn: the common tail after get_column_properties / set_property.
   pk / unique: as found by get_column_properties; nullable_false: it returned nullable = False (PRIMARY KEY);
   refs: the reference it found (None otherwise) *)
Definition defcol_finish (d : adict) (pk unique nullable_false : bool) (refs : pyval) : adict :=
  let d1 := dict_set d "references" (match dict_get d "references" with Some v => v | None => refs end) in
  let d2 := dict_set d1 "unique" (PBool (unique || getb d1 "unique")) in
  let d3 := dict_set d2 "primary_key" (PBool (pk || getb d2 "primary_key")) in
  let d4 := dict_set d3 "nullable" (if nullable_false then PBool false
                                    else match dict_get d3 "nullable" with Some v => v | None => PBool true end) in
  let d5 := dict_set d4 "default" (match dict_get d4 "default" with Some v => v | None => PNone end) in
  dict_set d5 "check" (match dict_get d5 "check" with Some v => v | None => PNone end).

(* get_column_properties on a trailing {"references": r}: r["column"] = r["columns"][0]; del r["columns"] *)
Definition ref_to_column_form (r : adict) : res adict :=
  match dict_get r "columns" with
  | Some (PList (c :: _)) => Ok (adel (dict_set r "column" c) "columns")
  | Some (PList []) => Raise IndexError
  | _ => Raise KeyError
  end.

(* `d.get(k)` is truthy *)
Definition truthy_a (v : pyval) : bool :=
  match v with
  | PNone => false | PBool b => b | PInt z => negb (Z.eqb z 0)
  | PStr s => negb (String.eqb s "") | PList l | PTuple l => match l with [] => false | _ => true end
  | PDict d => match d with [] => false | _ => true end
  end.
Definition tr (d : adict) (k : string) : bool := match dict_get d k with Some v => truthy_a v | None => false end.

(* p_defcolumn; args = p[1..] *)
Definition act_defcolumn (args : list pyval) : res pyval :=
  match args with
  | [PDict col] =>
      (* defcolumn -> column : set_property updates the dict with itself *)
      if tr col "check" || tr col "encode" || dict_has col "index_stmt" then Unsupported "defcolumn: check/encode/index"
      else Ok (PDict (defcol_finish col false false false PNone))
  | [PDict d; PDict item] =>
      if tr d "check" || tr d "encode" || dict_has item "property" || tr item "encode" || tr item "check"
      then Unsupported "defcolumn: property/encode/check item"
      else
        match dict_get item "references" with
        | Some (PDict r) =>
            (* defcolumn ref *)
            do r' <- ref_to_column_form r;
            let d' := dict_update d [("references", PDict r')] in
            Ok (PDict (defcol_finish d' false false false (PDict r')))
        | Some _ => Raise TypeError
        | None => Ok (PDict (defcol_finish (dict_update d item) false false false PNone))    (* null / default *)
        end
  | [PDict d; PStr "PRIMARY"; PStr "KEY"] =>
      if tr d "check" || tr d "encode" then Unsupported "defcolumn: check/encode"
      else Ok (PDict (defcol_finish d true false true PNone))
  | [PDict d; PStr "UNIQUE"] =>
      if tr d "check" || tr d "encode" then Unsupported "defcolumn: check/encode"
      else Ok (PDict (defcol_finish d false true false PNone))
  | [PDict d; PDict refitem; PDict nullitem] =>
      (* defcolumn ref null : the reference keeps its `columns` list (get_column_properties only looks at the last item) *)
      if tr d "check" || tr d "encode" || negb (dict_has refitem "references") || dict_has nullitem "references"
         || dict_has nullitem "property" || tr nullitem "encode" || tr nullitem "check"
      then Unsupported "defcolumn ref null: unexpected items"
      else Ok (PDict (defcol_finish (dict_update (dict_update d refitem) nullitem) false false false PNone))
  | _ => Unsupported "defcolumn form"
  end.

(* p_null *)
Definition act_null (args : list pyval) : res pyval :=
  match args with
  | [PStr a] => if String.eqb a "NULL" then Ok (PDict [("nullable", PBool true)]) else Unsupported "null form"
  | [PStr a; PStr b] => if String.eqb a "NOT" && String.eqb b "NULL" then Ok (PDict [("nullable", PBool false)]) else Unsupported "null form"
  | _ => Unsupported "null form"
  end.

(* p_default for DEFAULT <one word> / DEFAULT NULL / DEFAULT 'string' *)
Definition default_value (s : string) : pyval :=
  if isnumeric s then match int_of_string s with Some z => PInt z | None => PStr s end else PStr s.
Definition default_bad (v : string) : bool :=
  String.eqb v "FOR" || String.eqb v "for" || String.eqb v "DEFAULT" || String.eqb v "(" || String.eqb v ")".
Definition act_default (args : list pyval) : res pyval :=
  match args with
  | [PStr d; PStr v] =>
      if negb (String.eqb d "DEFAULT") || default_bad v
      then Unsupported "default form"
      else Ok (PDict [("default", default_value v)])
  | _ => Unsupported "default form"
  end.

(* p_multi_id : multi_id -> id ; p_funct_expr : funct_expr -> multi_id *)
Definition act_multi_id (args : list pyval) : res pyval :=
  match args with [PStr s] => Ok (PStr s) | _ => Unsupported "multi_id form" end.

(* p_string : STRING -> STRING_BASE *)
Definition act_string (args : list pyval) : res pyval :=
  match args with
  | [PStr s] => Ok (PStr s)
  | [PStr a; PStr b] => Ok (PStr (a ++ b))
  | _ => Unsupported "STRING form"
  end.

(* p_pid : pid -> id *)
Definition act_pid (args : list pyval) : res pyval :=
  match args with [PStr s] => Ok (PList [PStr s]) | _ => Unsupported "pid form" end.

Definition refaction_bad (act : string) : bool :=
  String.eqb act "ON" || String.eqb act "DELETE" || String.eqb act "UPDATE" || String.eqb act "DEFERRABLE" || String.eqb act "(" || String.eqb act ")".
(* p_ref *)
Definition act_ref (args : list pyval) : res pyval :=
  match args with
  | [PStr r; PDict tn] =>
      if negb (String.eqb r "REFERENCES") || truthy_a (match dict_get tn "project" with Some v => v | None => PNone end)
      then Unsupported "ref form"
      else
        do tname <- match dict_get tn "table_name" with Some v => Ok v | None => Raise KeyError end;
        do sch <- match dict_get tn "schema" with Some v => Ok v | None => Raise KeyError end;
        Ok (PDict [("references", PDict [("table", tname); ("columns", PList [PNone]); ("schema", sch); ("on_delete", PNone);
                                          ("on_update", PNone); ("deferrable_initially", PNone)])])
  | [PDict d; PStr "("; PList cols; PStr ")"] =>
      match dict_get d "references" with
      | Some (PDict r) => Ok (PDict (dict_set d "references" (PDict (dict_set r "columns" (PList cols)))))
      | _ => Raise KeyError
      end
  | [PDict d; PStr "ON"; PStr what; PStr act] =>
      if refaction_bad act
      then Unsupported "ref: action word is a keyword"
      else
      match dict_get d "references" with
      | Some (PDict r) =>
          let r1 := dict_set r "columns" (match dict_get r "columns" with Some v => v | None => PList [PNone] end) in
          if String.eqb what "DELETE" then Ok (PDict (dict_set d "references" (PDict (dict_set r1 "on_delete" (PStr act)))))
          else if String.eqb what "UPDATE" then Ok (PDict (dict_set d "references" (PDict (dict_set r1 "on_update" (PStr act)))))
          else Unsupported "ref ON form"
      | _ => Raise KeyError
      end
  | _ => Unsupported "ref form"
  end.
(* p_expression_table for the column-list productions *)
Definition is_column_dict (d : adict) : bool := dict_has d "type" && dict_has d "name".
Definition table_add_column (t col : adict) : res pyval :=
  if negb (is_column_dict col) || dict_has col "cluster_by"
  then Unsupported "expr: not a plain column"
  else
    match dict_get t "columns" with
    | Some (PList cs) => Ok (PDict (dict_set t "columns" (PList (cs ++ [PDict col]))))
    | _ => Unsupported "expr: table without columns list"
    end.
Definition act_expr_table (prod : string) (args : list pyval) : res pyval :=
  if String.eqb prod "expr -> table_name LP defcolumn" then
    match args with
    | [PDict t; PStr "("; PDict col] => if dict_has t "constraint" then Unsupported "expr: constraint" else table_add_column t col
    | _ => Unsupported "expr form"
    end
  else if String.eqb prod "expr -> expr COMMA defcolumn" then
    match args with
    | [PDict t; PStr ","; PDict col] => table_add_column t col
    | _ => Unsupported "expr form"
    end
  else if String.eqb prod "expr -> expr RP" then
    match args with
    | [PDict t; PStr ")"] =>
        if is_column_dict t || dict_has t "index_stmt" || dict_has t "check" || dict_has t "enforced" || dict_has t "references"
           || dict_has t "constraint" || dict_has t "unique_statement"
        then Unsupported "expr RP: table dict with special keys" else Ok (PDict t)
    | _ => Unsupported "expr form"
    end
  else Unsupported "expr production".

Definition action (norm : bool) (prod : string) (args : list pyval) : res pyval :=
  match words prod with
  | lhs :: _ :: _ =>
    if String.eqb lhs "id" then
      match args with
      | [PStr s] => Ok (PStr (if norm then normalize_id s else s))
      | _ => Unsupported "p_id"
      end
    else if String.eqb lhs "create_seq" then act_create_seq args
    else if String.eqb lhs "seq_name" then act_seq_name args
    else if String.eqb prod "expr -> seq_name" || startswith prod "expr -> expr INCREMENT"
            || startswith prod "expr -> expr START" || startswith prod "expr -> expr MINVALUE"
            || startswith prod "expr -> expr MAXVALUE" || startswith prod "expr -> expr NO M"
            || startswith prod "expr -> expr CACHE" || String.eqb prod "expr -> expr NOORDER"
            || String.eqb prod "expr -> expr ORDER"
         then act_expression_seq args
    else if String.eqb prod "create_table -> CREATE TABLE" then act_create_table args
    else if String.eqb lhs "t_name" then act_t_name args
    else if String.eqb prod "table_name -> create_table t_name" then act_table_name args
    else if String.eqb prod "c_type -> id" || String.eqb prod "c_type -> id id" then act_c_type args
    else if String.eqb prod "column -> id c_type" || String.eqb prod "column -> column LP id RP"
            || String.eqb prod "column -> column LP id COMMA id RP" then act_column args
    else if String.eqb prod "defcolumn -> column" || String.eqb prod "defcolumn -> defcolumn null"
            || String.eqb prod "defcolumn -> defcolumn default" || String.eqb prod "defcolumn -> defcolumn PRIMARY KEY"
            || String.eqb prod "defcolumn -> defcolumn UNIQUE" || String.eqb prod "defcolumn -> defcolumn ref"
            || String.eqb prod "defcolumn -> defcolumn ref null" then act_defcolumn args
    else if String.eqb lhs "null" then act_null args
    else if String.eqb prod "default -> DEFAULT funct_expr" || String.eqb prod "default -> DEFAULT NULL"
            || String.eqb prod "default -> DEFAULT STRING" then act_default args
    else if String.eqb prod "multi_id -> id" || String.eqb prod "funct_expr -> multi_id" then act_multi_id args
    else if String.eqb prod "STRING -> STRING_BASE" then act_string args
    else if String.eqb prod "pid -> id" then act_pid args
    else if String.eqb prod "ref -> REFERENCES t_name" || String.eqb prod "ref -> ref LP pid RP"
            || String.eqb prod "ref -> ref ON DELETE id" || String.eqb prod "ref -> ref ON UPDATE id" then act_ref args
    else if String.eqb prod "expr -> table_name LP defcolumn" || String.eqb prod "expr -> expr COMMA defcolumn"
            || String.eqb prod "expr -> expr RP" then act_expr_table prod args
    else if String.eqb prod "expr -> CREATE TABLESPACE id" || String.eqb prod "expr -> CREATE id TABLESPACE id"
            || String.eqb prod "expr -> CREATE id id TABLESPACE id" then act_tablespace args
    else if String.eqb prod "database_base -> CREATE DATABASE id" then act_database_base args
    else if String.eqb prod "create_database -> database_base" || String.eqb prod "expr -> create_database"
            || String.eqb prod "expr -> create_schema" then
      match args with [PDict d] => Ok (PDict d) | _ => Unsupported "unit production on a non-dict" end
    else if String.eqb prod "c_schema -> CREATE SCHEMA" then Ok PNone
    else if String.eqb prod "create_schema -> c_schema id" || String.eqb prod "create_schema -> c_schema IF NOT EXISTS id"
         then act_create_schema args
    else Unsupported ("action " ++ prod)
  | _ => Unsupported ("action " ++ prod)
  end.

(* ---------- evaluation of a named trace ------------------------------------------------------ *)
Fixpoint eval (norm : bool) (evs : list nevent) (vs : list pyval) : res (option pyval) :=
  match evs with
  | [] => Unsupported "trace ended without accept"
  | NShift v :: r => eval norm r (PStr v :: vs)
  | NReduce p :: r =>
      let n := prod_arity p in
      do v <- action norm p (rev (firstn n vs));
      eval norm r (v :: skipn n vs)
  | NError :: r => eval norm r []
  | NErrorEnd :: _ => Ok None
  | NAccept :: _ => Ok (Some (hd PNone vs))
  end.
