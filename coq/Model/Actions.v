(* Semantic actions (the p_* functions) as functions over pyval, dispatched by the production's
   text "lhs -> rhs ..." (never by number), and the value-stack evaluation of an LR event trace.
   Productions not modelled return Unsupported.  No proofs here. *)
From Coq Require Import String Ascii List ZArith NArith Bool.
From SDP Require Import Base PyStr.
Import ListNotations.
Open Scope string_scope.

(* ---------- dict helpers (insertion ordered) ------------------------------------------------ *)
Fixpoint dict_set (d : list (string * pyval)) (k : string) (v : pyval) : list (string * pyval) :=
  match d with
  | [] => [(k, v)]
  | (k', v') :: r => if String.eqb k k' then (k, v) :: r else (k', v') :: dict_set r k v
  end.
Definition dict_get (d : list (string * pyval)) (k : string) : option pyval := assoc k d.
Definition dict_update (d e : list (string * pyval)) : list (string * pyval) :=
  fold_left (fun acc kv => dict_set acc (fst kv) (snd kv)) e d.
Definition dict_has (d : list (string * pyval)) (k : string) : bool := assoc_mem k d.

Definition pystr_eq (v : pyval) (s : string) : bool :=
  match v with PStr t => String.eqb t s | _ => false end.
(* `x in p_list` for a string x: equality with some element (non-strings never equal a string) *)
Definition list_has_str (l : list pyval) (s : string) : bool := existsb (fun v => pystr_eq v s) l.

Definition last_val (l : list pyval) : pyval := last l PNone.

(* named events: what evaluation needs to know *)
Inductive nevent :=
| NShift (v : string)
| NReduce (prod : string)        (* "lhs -> sym sym ..." *)
| NError
| NErrorEnd
| NAccept.

(* number of right-hand-side symbols of "lhs -> a b c" *)
Definition prod_arity (p : string) : nat :=
  match words p with
  | _ :: _ :: rhs => match rhs with ["<empty>"] => 0 | _ => List.length rhs end
  | _ => 0
  end.

(* ---------- p_id ---------------------------------------------------------------------------- *)
Definition first_c (s : string) : option ascii := match s with String c _ => Some c | _ => None end.
Definition normalize_id (s : string) : string :=
  (* for (start,end) in [(`,`),(",") ,([,])]: if startswith and endswith: strip that ONE pair and stop (break) *)
  let hit (s : string) (a b : ascii) : bool :=
      (match first_c s with Some c => Ascii.eqb c a | None => false end)
      && (match last_char s with Some c => Ascii.eqb c b | None => false end) in
  let strip1 (s : string) : string := take (String.length s - 2) (drop 1 s) in
  if (2 <? String.length s)%nat then
    if hit s "`"%char "`"%char then strip1 s
    else if hit s """"%char """"%char then strip1 s
    else if hit s "["%char "]"%char then strip1 s
    else s
  else s.

(* ---------- the actions ---------------------------------------------------------------------- *)
Definition as_str (v : pyval) : res string :=
  match v with PStr s => Ok s | _ => Raise TypeError end.
Definition as_dict (v : pyval) : res (list (string * pyval)) :=
  match v with PDict d => Ok d | _ => Raise TypeError end.

Definition py_int (v : pyval) : res pyval :=
  match v with
  | PStr s => match int_of_string s with Some z => Ok (PInt z) | None => Raise ValueError end
  | PInt z => Ok (PInt z)
  | PBool b => Ok (PInt (if b then 1 else 0))
  | _ => Raise TypeError
  end.

(* p_expression_seq; args = p[1..] *)
Definition act_expression_seq (args : list pyval) : res pyval :=
  match args with
  | [e] => Ok e
  | e :: rest =>
    do d <- as_dict e;
    match rest with
    | [k] => do ks <- as_str k; Ok (PDict (dict_update d [(lower ks, PBool true)]))
    | [k; v] =>
        do ks <- as_str k;
        if String.eqb ks "NO" then do vs <- as_str v; Ok (PDict (dict_update d [(lower vs, PBool false)]))
        else do n <- py_int v; Ok (PDict (dict_update d [(lower ks, n)]))
    | [k; k2; v] =>
        do ks <- as_str k; do k2s <- as_str k2; do n <- py_int v;
        Ok (PDict (dict_update d [(lower ks ++ "_" ++ lower k2s, n)]))
    | _ => Unsupported "p_expression_seq arity"
    end
  | [] => Unsupported "p_expression_seq arity"
  end.

(* p_seq_name *)
Definition act_seq_name (args : list pyval) : res pyval :=
  match args with
  | [_; name] => Ok (PDict [("schema", PNone); ("sequence_name", name)])
  | [_; schema; _; name] => Ok (PDict [("schema", schema); ("sequence_name", name)])
  | _ => Unsupported "p_seq_name arity"
  end.

(* p_create_seq: add_if_not_exists(p[0]=None, p_list) *)
Definition act_create_seq (args : list pyval) : res pyval :=
  if list_has_str args "EXISTS" then Raise TypeError else Ok PNone.

(* TableSpaces.get_tablespace_data(p_list[1:]) for the forms without properties *)
Definition act_tablespace (args : list pyval) : res pyval :=
  (* args = [CREATE; ...; name] *)
  match args with
  | _ :: second :: rest =>
    do s2 <- as_str second;
    do '(ty, temp) <-
       (if String.eqb s2 "TABLESPACE" then Ok (PNone, false)
        else if String.eqb (upper s2) "TEMPORARY" then Ok (PNone, true)
        else match rest with
             | third :: _ => do s3 <- as_str third; Ok (PStr s2, String.eqb (upper s3) "TEMPORARY")
             | [] => Raise IndexError
             end);
    let name := last_val args in
    match name with
    | PDict props =>
        Ok (PDict [("tablespace_name", nth (List.length args - 2) args PNone); ("properties", PDict props); ("type", ty); ("temporary", PBool temp)])
    | _ => Ok (PDict [("tablespace_name", name); ("properties", PNone); ("type", ty); ("temporary", PBool temp)])
    end
  | _ => Raise IndexError
  end.

(* p_database_base for CREATE DATABASE id *)
Definition act_database_base (args : list pyval) : res pyval :=
  match args with
  | [_; _; name] => match name with PDict _ => Unsupported "database_base clone" | _ => Ok (PDict [("database_name", name)]) end
  | _ => Unsupported "database_base form"
  end.

(* p_create_schema for `c_schema id` and `c_schema IF NOT EXISTS id` (c_schema value None) *)
Definition act_create_schema (args : list pyval) : res pyval :=
  match args with
  | [PNone; PStr name] =>
      if String.eqb name "AUTHORIZATION" || String.eqb name "EXISTS" || String.eqb name "=" || String.eqb name "COMMENT" || String.eqb name "."
      then Unsupported "create_schema: special word as name"
      else Ok (PDict [("schema_name", PStr (replace name "`" ""))])
  | [PNone; PStr a; PStr b; PStr x; PStr name] =>
      if negb (String.eqb a "IF" && String.eqb b "NOT" && String.eqb x "EXISTS") then Unsupported "create_schema form"
      else if String.eqb name "AUTHORIZATION" || String.eqb name "=" || String.eqb name "COMMENT" || String.eqb name "."
      then Unsupported "create_schema: special word as name"
      else Ok (PDict [("if_not_exists", PBool true); ("schema_name", PStr (replace name "`" ""))])
  | _ => Unsupported "create_schema form"
  end.

(* ---------- CREATE TABLE: core column syntax ---------------------------------------------------------- *)
Definition remove_par (l : list pyval) : list pyval :=
  filter (fun v => negb (pystr_eq v "(" || pystr_eq v ")")) l.
Definition is_pdict (v : pyval) : bool := match v with PDict _ => true | _ => false end.
Definition starts_with_digit (s : string) : bool := match s with String c _ => is_digit_c c | _ => false end.

(* p_create_table for `CREATE TABLE` (no IF NOT EXISTS / OR REPLACE / modifiers) *)
Definition act_create_table (args : list pyval) : res pyval :=
  match args with
  | [PStr "CREATE"; PStr "TABLE"] => Ok (PDict [])
  | _ => Unsupported "create_table form"
  end.

(* p_t_name *)
Definition act_t_name (args : list pyval) : res pyval :=
  match args with
  | [name] => Ok (PDict [("schema", PNone); ("table_name", name); ("columns", PList []); ("checks", PList [])])
  | [schema; _; name] => Ok (PDict [("schema", schema); ("table_name", name); ("columns", PList []); ("checks", PList [])])
  | [project; PStr "."; schema; PStr "."; name] =>
      let d := [("schema", schema); ("table_name", name); ("columns", PList []); ("checks", PList [])] in
      Ok (PDict (match project with PStr "" | PNone => d | _ => dict_set d "project" project end))
  | _ => Unsupported "t_name form"
  end.

(* p_table_name : create_table t_name *)
Definition act_table_name (args : list pyval) : res pyval :=
  match args with
  | [PDict a; PDict b] => Ok (PDict (dict_update a b))
  | _ => Unsupported "table_name form"
  end.

(* words that p_c_type / process_type / process_array_types treat specially *)
Definition plain_type_word (w : string) : bool :=
  negb (contains w "ARRAY") && negb (contains w "<") && negb (contains w "[") && negb (contains w ".")
  && negb (String.eqb (lower w) "distkey") && negb (String.eqb (lower w) "encode")
  && negb (String.eqb w "ENUM") && negb (String.eqb w "SET") && negb (contains (upper w) "IDENTITY")
  && String.eqb (strip w) w && negb (String.eqb w "").

(* p_c_type for `id` and `id id` *)
Definition act_c_type (args : list pyval) : res pyval :=
  match args with
  | [PStr w] => if plain_type_word w then Ok (PDict [("type", PStr w)]) else Unsupported "c_type: special type word"
  | [PStr w1; PStr w2] =>
      if plain_type_word w1 && plain_type_word w2 then Ok (PDict [("type", PStr (w1 ++ " " ++ w2))])
      else Unsupported "c_type: special type word"
  | _ => Unsupported "c_type form"
  end.

(* Column.get_size on digit strings *)
Definition size_int (s : string) : res pyval :=
  if isnumeric s then match int_of_string s with Some z => Ok (PInt z) | None => Raise ValueError end
  else Unsupported "size word is not a digit string".

Definition colname_bad (name : string) : bool := String.eqb name "KEY" || String.eqb name ".".
(* p_column *)
(* process_type_to_column_data on a type that mentions IDENTITY: the first word is the type, the column gets identity = None *)
Definition column_identity (name ty : string) : res pyval :=
  match words ty with
  | w :: _ :: _ => Ok (PDict [("name", PStr name); ("type", PStr w); ("size", PNone); ("identity", PNone)])
  | _ => Unsupported "column: a type that is the single word IDENTITY"
  end.
Definition act_column (args : list pyval) : res pyval :=
  match args with
  | [PStr name; PDict ct] =>
      if colname_bad name then Unsupported "column: KEY / dot as name"
      else match ct with
           | [("type", PStr ty)] =>
               if contains (upper ty) "IDENTITY" then column_identity name ty
               else Ok (PDict [("name", PStr name); ("type", PStr ty); ("size", PNone)])
           | _ =>
             (* process_type_to_column_data, len(p_list) <= 3: the type string, then the c_type's properties copied key by key *)
             match dict_get ct "type" with
             | Some (PStr ty) =>
                 if contains (upper ty) "IDENTITY" then column_identity name ty
                 else
                   let base := [("name", PStr name); ("type", PStr ty); ("size", PNone)] in
                   match dict_get ct "property" with
                   | Some (PDict props) => Ok (PDict (dict_update base props))
                   | Some _ => Unsupported "column: c_type property is not a dict"
                   | None => Ok (PDict base)
                   end
             | _ => Unsupported "column: c_type without a string type"
             end
           end
  | [PDict col; PStr lp; PStr n; PStr rp] =>
      if negb (String.eqb lp "(" && String.eqb rp ")") then Unsupported "column form"
      else if dict_has col "index_stmt" then Unsupported "column: index"
      else if isnumeric n then (do z <- size_int n; Ok (PDict (dict_set col (if dict_has col "identity" then "identity" else "size") z)))
      else if starts_with_digit n || String.eqb n "max"          (* set_column_size: a leading digit or the word max; get_size keeps the word *)
           then Ok (PDict (dict_set col (if dict_has col "identity" then "identity" else "size") (PStr n)))
           else Ok (PDict col)
  | [PDict col; PStr lp; PStr n; PStr w; PStr rp] =>
      (* process_oracle_type_size: ( 30 CHAR ) is the one size word "30 CHAR" *)
      if negb (String.eqb lp "(" && String.eqb rp ")") then Unsupported "column form"
      else if dict_has col "index_stmt" then Unsupported "column: index"
      else let m := n ++ " " ++ w in
           if starts_with_digit m then Ok (PDict (dict_set col (if dict_has col "identity" then "identity" else "size") (PStr m)))
           else Ok (PDict col)
  | [PDict col; PStr lp; PStr p; PStr cm; PStr sc; PStr rp] =>
      if negb (String.eqb lp "(" && String.eqb cm "," && String.eqb rp ")") then Unsupported "column form"
      else if dict_has col "index_stmt" then Unsupported "column: index"
      else if isnumeric p then
        (do a <- size_int p; do b <- size_int sc;
         Ok (PDict (dict_set col (if dict_has col "identity" then "identity" else "size") (PTuple [a; b]))))
      else
        (* Oracle NUMBER with a star as precision; Geometry(MultiPolygon, 26918): a first parameter that is no number goes to type_parameters *)
        if negb (isnumeric sc) then Unsupported "column: second size word is not a digit string"
        else do b <- size_int sc;
             if String.eqb p "*" then Ok (PDict (dict_set col (if dict_has col "identity" then "identity" else "size") (PTuple [PStr p; b])))
             else if String.eqb (strip p) "*" || starts_with_digit p then Unsupported "column: odd first size word"
             else Ok (PDict (dict_set col "type_parameters" (PTuple [PStr p; b])))
  | _ => Unsupported "column form"
  end.

Definition adict := list (string * pyval).
Definition getb (d : adict) (k : string) : bool := match dict_get d k with Some (PBool b) => b | _ => false end.
Fixpoint adel (d : adict) (k : string) : adict :=
  match d with [] => [] | (k', v) :: r => if String.eqb k k' then r else (k', v) :: adel r k end.

(* p_defcolumn: the common tail after get_column_properties / set_property.
   pk / unique: as found by get_column_properties; nullable_false: it returned nullable = False (PRIMARY KEY);
   refs: the reference it found (None otherwise) *)
Definition defcol_finish (d : adict) (pk unique nullable_false : bool) (refs : pyval) : adict :=
  let d1 := dict_set d "references" (match dict_get d "references" with Some v => v | None => refs end) in
  let d2 := dict_set d1 "unique" (PBool (unique || getb d1 "unique")) in
  let d3 := dict_set d2 "primary_key" (PBool (pk || getb d2 "primary_key")) in
  let d4 := dict_set d3 "nullable" (if nullable_false then PBool false
                                    else match dict_get d3 "nullable" with Some v => v | None => PBool true end) in
  let d5 := dict_set d4 "default" (match dict_get d4 "default" with Some v => v | None => PNone end) in
  dict_set d5 "check" (match dict_get d5 "check" with Some v => v | None => PNone end).

(* get_column_properties on a trailing {"references": r}: r["column"] = r["columns"][0]; del r["columns"] *)
Definition ref_to_column_form (r : adict) : res adict :=
  match dict_get r "columns" with
  | Some (PList (c :: _)) => Ok (adel (dict_set r "column" c) "columns")
  | Some (PList []) => Raise IndexError
  | _ => Raise KeyError
  end.

(* `d.get(k)` is truthy *)
Definition truthy_a (v : pyval) : bool :=
  match v with
  | PNone => false | PBool b => b | PInt z => negb (Z.eqb z 0)
  | PStr s => negb (String.eqb s "") | PList l | PTuple l => match l with [] => false | _ => true end
  | PDict d => match d with [] => false | _ => true end
  end.
Definition tr (d : adict) (k : string) : bool := match dict_get d k with Some v => truthy_a v | None => false end.

(* ---------- p_c_type in general (all alternatives), p_tid ------------------------------------------------------------------------------ *)
Definition not_par (v : pyval) : bool := match v with PStr s => negb (String.eqb s "(" || String.eqb s ")") | _ => true end.
Fixpoint all_strs (l : list pyval) : option (list string) :=
  match l with
  | [] => Some []
  | PStr s :: r => match all_strs r with Some ss => Some (s :: ss) | None => None end
  | _ => None
  end.
Fixpoint fold_res {A B} (f : A -> B -> res A) (l : list B) (a : A) : res A :=
  match l with [] => Ok a | b :: r => do a' <- f a b; fold_res f r a' end.
(* Column.parse_complex_type: one element of p_list *)
Definition complex_elem (acc : string) (e : pyval) : res string :=
  match e with
  | PList l => match all_strs l with
               | Some ss => Ok (fold_left (fun a x => a ++ " " ++ rstrip x) ss acc)
               | None => Unsupported "complex type: list with a non-string element"
               end
  | PStr s => Ok (if contains s "ARRAY" && negb (String.eqb s "ARRAY") then acc ++ s else acc ++ " " ++ s)
  | _ => Unsupported "complex type: element"
  end.
Definition parse_complex_type (pl : list pyval) : res string :=
  match pl with
  | PDict d :: rest => match dict_get d "type" with
                       | Some (PStr t) => fold_res complex_elem rest t
                       | _ => Unsupported "complex type: c_type without a string type"
                       end
  | _ => fold_res complex_elem pl ""
  end.
(* `"[" in p_list[-1]`: substring of a str, element of a list, key of a dict *)
Definition has_bracket (last : pyval) : bool :=
  match last with
  | PStr s => contains s "["
  | PList l | PTuple l => existsb (fun v => match v with PStr x => String.eqb x "[" | _ => false end) l
  | PDict d => dict_has d "["
  | _ => false
  end.
Definition process_array_types (ty : string) (last : pyval) : string :=
  if negb (contains ty "<") && contains ty "ARRAY" then
    if negb (has_bracket last) then replace (replace ty " ARRAY" "[]") "ARRAY" "[]" else replace ty "ARRAY" ""
  else if contains ty "<" && contains ty "[]" then replace ty "[]" "ARRAY"
  else ty.
(* Column.process_type; returns the (possibly replaced) p[0] and the type string *)
Definition process_type (p0 : list (string * pyval)) (ty : pyval) (last : pyval) : res (list (string * pyval) * string) :=
  do '(p0', t) <-
     match ty with
     | PList (PStr t0 :: _) => Ok (p0, t0)
     | PList _ => Unsupported "process_type: list type without a leading string"
     | PStr t0 =>
         match last with
         | PStr l => if String.eqb (lower l) "distkey"
                     then Ok ([("property", PDict [("distkey", PBool true)])], hd "" (split t0 "distkey"))
                     else Ok (p0, t0)
         | _ => Ok (p0, t0)
         end
     | _ => Unsupported "process_type: type value"
     end;
  Ok (p0', process_array_types (replace (strip t) " . " ".") last).
Definition act_c_type_gen (args : list pyval) : res pyval :=
  let pl := filter not_par args in
  match pl with
  | [] => Raise IndexError
  | first :: _ =>
    let lastv := List.last pl PNone in
    let is_es := match first with PStr s => String.eqb s "ENUM" || String.eqb s "SET" | _ => false end in
    do '(p0, ty) <-
       (if is_es then Ok ([("property", PDict [("values", lastv)])], Some first)
        else if Nat.eqb (List.length pl) 1 then Ok ([], Some lastv)
        else match hd PNone args with
             | PStr s => if String.eqb (lower s) "encode" then Ok ([("property", PDict [("encode", nth 1 args PNone)])], None)
                         else (do t <- parse_complex_type pl; Ok ([], Some (PStr t)))
             | _ => do t <- parse_complex_type pl; Ok ([], Some (PStr t))
             end);
    match ty with
    | Some v => if truthy_a v then (do '(p0', t) <- process_type p0 v lastv;
                                    Ok (PDict (dict_set p0' "type" (PStr t))))
                else Ok (PDict (dict_set p0 "type" v))
    | None => Ok (PDict (dict_set p0 "type" PNone))
    end
  end.
(* p_tid *)
Definition act_tid (args : list pyval) : res pyval :=
  match args with
  | first :: rest =>
    match all_strs rest with
    | None => Unsupported "tid: non-string item"
    | Some ss =>
      let add (a i : string) := if String.eqb i "[]" || String.eqb i "," then a ++ i else a ++ " " ++ i in
      match first with
      | PStr s => Ok (PList [PStr (fold_left add ss s)])
      | PList (PStr s :: more) => Ok (PList (PStr (fold_left add ss s) :: more))
      | _ => Unsupported "tid form"
      end
    end
  | [] => Unsupported "tid form"
  end.

(* p_defcolumn; args = p[1..] *)
Definition act_defcolumn (args : list pyval) : res pyval :=
  match args with
  | [PDict col] =>
      (* defcolumn -> column : set_property updates the dict with itself *)
      if tr col "check" || tr col "encode" || dict_has col "index_stmt" then Unsupported "defcolumn: check/encode/index"
      else Ok (PDict (defcol_finish col false false false PNone))
  | [PDict d0; PDict item0] =>
      (* set_property: the entries of item["property"] are copied into the column, the key is deleted, the rest updates the column *)
      do '(d, item) <-
         match dict_get item0 "property" with
         | Some (PDict props) =>
             if existsb (fun kv => String.eqb (fst kv) "SET") props then Unsupported "defcolumn: CHARACTER SET property"
             else Ok (dict_update d0 props, adel item0 "property")
         | Some _ => Unsupported "defcolumn: property is not a dict"
         | None => Ok (d0, item0)
         end;
      if tr d "check" || tr item "check"
      then Unsupported "defcolumn: check item"
      else
        match dict_get item "references" with
        | Some (PDict r) =>
            (* defcolumn ref *)
            do r' <- ref_to_column_form r;
            let d' := dict_update d [("references", PDict r')] in
            Ok (PDict (defcol_finish d' false false false (PDict r')))
        | Some _ => Raise TypeError
        | None => Ok (PDict (defcol_finish (dict_update d item) false false false PNone))    (* null / default *)
        end
  | [PDict d; PStr "PRIMARY"; PStr "KEY"] =>
      if tr d "check" || tr d "encode" then Unsupported "defcolumn: check/encode"
      else Ok (PDict (defcol_finish d true false true PNone))
  | [PDict d; PStr "UNIQUE"] =>
      if tr d "check" || tr d "encode" then Unsupported "defcolumn: check/encode"
      else Ok (PDict (defcol_finish d false true false PNone))
  | [PDict d; PDict refitem; PDict nullitem] =>
      (* defcolumn ref null : the reference keeps its `columns` list (get_column_properties only looks at the last item) *)
      if tr d "check" || tr d "encode" || negb (dict_has refitem "references") || dict_has nullitem "references"
         || dict_has nullitem "property" || tr nullitem "encode" || tr nullitem "check"
      then Unsupported "defcolumn ref null: unexpected items"
      else Ok (PDict (defcol_finish (dict_update (dict_update d refitem) nullitem) false false false PNone))
  | _ => Unsupported "defcolumn form"
  end.

(* p_null *)
Definition act_null (args : list pyval) : res pyval :=
  match args with
  | [PStr a] => if String.eqb a "NULL" then Ok (PDict [("nullable", PBool true)]) else Unsupported "null form"
  | [PStr a; PStr b] => if String.eqb a "NOT" && String.eqb b "NULL" then Ok (PDict [("nullable", PBool false)]) else Unsupported "null form"
  | _ => Unsupported "null form"
  end.

(* p_default for DEFAULT <one word> / DEFAULT NULL / DEFAULT 'string' *)
Definition default_value (s : string) : pyval :=
  if isnumeric s then match int_of_string s with Some z => PInt z | None => PStr s end else PStr s.
Definition default_bad (v : string) : bool :=
  String.eqb v "FOR" || String.eqb v "for" || String.eqb v "DEFAULT" || String.eqb v "(" || String.eqb v ")".
Definition act_default (args : list pyval) : res pyval :=
  match args with
  | [PStr d; PStr v] =>
      if negb (String.eqb d "DEFAULT") || default_bad v
      then Unsupported "default form"
      else Ok (PDict [("default", default_value v)])
  | _ => Unsupported "default form"
  end.

(* p_multi_id : multi_id -> id ; p_funct_expr : funct_expr -> multi_id *)
Definition act_multi_id (args : list pyval) : res pyval :=
  match args with [PStr s] => Ok (PStr s) | _ => Unsupported "multi_id form" end.

(* p_string : STRING -> STRING_BASE *)
Definition act_string (args : list pyval) : res pyval :=
  match args with
  | [PStr s] => Ok (PStr s)
  | [PStr a; PStr b] => Ok (PStr (a ++ b))
  | _ => Unsupported "STRING form"
  end.

(* p_pid : pid -> id *)
Definition act_pid (args : list pyval) : res pyval :=
  match args with [PStr s] => Ok (PList [PStr s]) | _ => Unsupported "pid form" end.

Definition refaction_bad (act : string) : bool :=
  String.eqb act "ON" || String.eqb act "DELETE" || String.eqb act "UPDATE" || String.eqb act "DEFERRABLE" || String.eqb act "(" || String.eqb act ")".
(* p_ref *)
Definition act_ref (args : list pyval) : res pyval :=
  match args with
  | [PStr r; PDict tn] =>
      if negb (String.eqb r "REFERENCES") || truthy_a (match dict_get tn "project" with Some v => v | None => PNone end)
      then Unsupported "ref form"
      else
        do tname <- match dict_get tn "table_name" with Some v => Ok v | None => Raise KeyError end;
        do sch <- match dict_get tn "schema" with Some v => Ok v | None => Raise KeyError end;
        Ok (PDict [("references", PDict [("table", tname); ("columns", PList [PNone]); ("schema", sch); ("on_delete", PNone);
                                          ("on_update", PNone); ("deferrable_initially", PNone)])])
  | [PDict d; PStr "("; PList cols; PStr ")"] =>
      match dict_get d "references" with
      | Some (PDict r) => Ok (PDict (dict_set d "references" (PDict (dict_set r "columns" (PList cols)))))
      | _ => Raise KeyError
      end
  | [PDict d; PStr "ON"; PStr what; PStr act] =>
      if refaction_bad act
      then Unsupported "ref: action word is a keyword"
      else
      match dict_get d "references" with
      | Some (PDict r) =>
          let r1 := dict_set r "columns" (match dict_get r "columns" with Some v => v | None => PList [PNone] end) in
          if String.eqb what "DELETE" then Ok (PDict (dict_set d "references" (PDict (dict_set r1 "on_delete" (PStr act)))))
          else if String.eqb what "UPDATE" then Ok (PDict (dict_set d "references" (PDict (dict_set r1 "on_update" (PStr act)))))
          else Unsupported "ref ON form"
      | _ => Raise KeyError
      end
  | _ => Unsupported "ref form"
  end.
(* p_expression_table for the column-list productions *)
Definition is_column_dict (d : adict) : bool := dict_has d "type" && dict_has d "name".
Definition table_add_column (t col : adict) : res pyval :=
  if negb (is_column_dict col) || dict_has col "cluster_by"
  then Unsupported "expr: not a plain column"
  else
    match dict_get t "columns" with
    | Some (PList cs) => Ok (PDict (dict_set t "columns" (PList (cs ++ [PDict col]))))
    | _ => Unsupported "expr: table without columns list"
    end.
Definition act_expr_table (prod : string) (args : list pyval) : res pyval :=
  if String.eqb prod "expr -> table_name LP defcolumn" then
    match args with
    | [PDict t; PStr "("; PDict col] => if dict_has t "constraint" then Unsupported "expr: constraint" else table_add_column t col
    | _ => Unsupported "expr form"
    end
  else if String.eqb prod "expr -> expr COMMA defcolumn" then
    match args with
    | [PDict t; PStr ","; PDict col] => table_add_column t col
    | _ => Unsupported "expr form"
    end
  else if String.eqb prod "expr -> expr RP" then
    match args with
    | [PDict t; PStr ")"] =>
        (* p_list = [t, t]: the branches on p_list[-1] look at the table dict itself; a left-over "references" /
           "unique_statement" key is harmless (add_ref_information_to_table finds no list, keys() != {unique_statement}) *)
        if is_column_dict t || dict_has t "index_stmt" || dict_has t "check" || dict_has t "enforced" || dict_has t "constraint"
        then Unsupported "expr RP: table dict with special keys" else Ok (PDict t)
    | _ => Unsupported "expr form"
    end
  else Unsupported "expr production".


(* ======================================================================================================================
   Further semantic actions (ALTER TABLE, CREATE INDEX, table-level constraints, CREATE TABLE variants ...).
   They widen what the model can run (correspondence layers D and F on the harvested test DDL); the fragment theorems
   do not depend on them: [action] only falls through to [action_more] for productions it does not know. *)
Definition strs_of (l : list pyval) : list string := flat_map (fun v => match v with PStr s => [s] | _ => [] end) l.
Definition nth_str (l : list pyval) (n : nat) : res string :=
  match nth_error l n with Some (PStr s) => Ok s | _ => Unsupported "expected a string argument" end.

(* p_create_table : all nine alternatives; args = p[1..] *)
Definition act_create_table_g (args : list pyval) : res pyval :=
  let ss := strs_of args in
  let n := List.length args in                       (* len(p_list) = n + 1 *)
  let d0 : adict := if mem "EXISTS" ss then [("if_not_exists", PBool true)] else [] in
  let d1 := if mem "REPLACE" ss then dict_set d0 "replace" (PBool true) else d0 in
  do id_key <- (if mem "REPLACE" ss then nth_str args 3 else if Nat.eqb n 4 then nth_str args 2 else nth_str args 1);
  let k := upper id_key in
  if String.eqb k "EXTERNAL" || String.eqb k "TRANSIENT" then Ok (PDict (dict_set d1 (lower k) (PBool true)))
  else if String.eqb k "GLOBAL" then Ok (PDict (dict_set d1 "is_global" (PBool true)))
  else if String.eqb k "TEMP" || String.eqb k "TEMPORARY" then
    let d2 := dict_set d1 "temp" (PBool true) in
    do g <- (if Nat.eqb n 4 then do w <- nth_str args 1; Ok (String.eqb (upper w) "GLOBAL") else Ok false);
    Ok (PDict (if g then dict_set d2 "is_global" (PBool true) else d2))
  else Ok (PDict d1).

(* p_t_name : id DOT id DOT id *)
Definition act_t_name3 (args : list pyval) : res pyval :=
  match args with
  | [project; PStr "."; schema; PStr "."; name] =>
      let d := [("schema", schema); ("table_name", name); ("columns", PList []); ("checks", PList [])] in
      Ok (PDict (if truthy_a project then dict_set d "project" project else d))
  | _ => Unsupported "t_name form"
  end.

(* p_alt_table_name *)
Definition act_alt_table (args : list pyval) : res pyval :=
  match last_val args with
  | PDict td =>
      match dict_get td "table_name", dict_get td "schema" with
      | Some tn, Some sch =>
          let d0 : adict := [("alter_table_name", tn); ("schema", sch)] in
          let d1 := if list_has_str args "IF" then dict_set d0 "if_exists" (PBool true) else d0 in
          let d2 := if Nat.eqb (List.length args) 5 then dict_set d1 "only" (PBool true) else d1 in
          Ok (PDict (if tr td "project" then dict_set d2 "project" (match dict_get td "project" with Some v => v | None => PNone end) else d2))
      | _, _ => Raise KeyError
      end
  | _ => Unsupported "alt_table form"
  end.

Definition act_constraint (args : list pyval) : res pyval :=
  match args with
  | [_; name] => Ok (PDict [("constraint", PDict [("name", name)])])
  | _ => Unsupported "constraint form"
  end.

(* p_pid : pid COMMA id *)
Definition act_pid_more (args : list pyval) : res pyval :=
  match args with
  | [PList l; PStr ","; PStr s] => Ok (PList (l ++ [PStr s]))
  | _ => Unsupported "pid form"
  end.

Definition constraint_name_of (v : pyval) : option pyval :=
  match v with
  | PDict d => match dict_get d "constraint" with
               | Some (PDict c) => Some (match dict_get c "name" with Some n => n | None => PNone end)
               | _ => None end
  | _ => None
  end.

(* p_alter_primary_key / p_alter_unique *)
Definition act_alter_key (key : string) (args : list pyval) : res pyval :=
  match args, last_val (remove_par args) with
  | PDict a :: _ :: third :: _, pid =>
      let cn := match third with PDict _ => (match constraint_name_of third with Some n => n | None => PNone end) | _ => PNone end in
      (* "constraint" in p[3] on a string is a substring test: the keywords PRIMARY / UNIQUE do not contain it *)
      Ok (PDict (dict_set a key (PDict [("constraint_name", cn); ("columns", pid)])))
  | _, _ => Unsupported "alter key form"
  end.

(* p_alter_foreign *)
Definition act_alter_foreign (args : list pyval) : res pyval :=
  match args with
  | [PDict a; _; PList cols] =>
      Ok (PDict (dict_set a "columns" (PList (map (fun c => PDict [("name", c)]) cols))))
  | [PDict a; _; PDict cns; PList cols] =>
      (match constraint_name_of (PDict cns) with
       | Some n => Ok (PDict (dict_set a "columns" (PList (map (fun c => PDict [("name", c); ("constraint_name", n)]) cols))))
       | None => Ok (PDict (dict_set a "columns" (PList (map (fun c => PDict [("name", c)]) cols))))
       end)
  | _ => Unsupported "alter_foreign form"
  end.

(* p_expression_alter *)
Definition act_expr_alter (args : list pyval) : res pyval :=
  match args with
  | [PDict a] => Ok (PDict a)
  | [PDict a; PDict b] => Ok (PDict (dict_update a b))
  | _ => Unsupported "expr alter form"
  end.

(* p_create_index *)
Definition act_create_index (args : list pyval) : res pyval :=
  match args with
  | PDict d :: _ => Ok (PDict d)
  | _ =>
      Ok (PDict [("schema", PNone); ("index_name", last_val args); ("unique", PBool (list_has_str args "UNIQUE"));
                 ("clustered", PBool (list_has_str args "CLUSTERED"))])
  end.
Definition act_index_table_name (args : list pyval) : res pyval :=
  match args with
  | [PDict d; _; tn] => Ok (PDict (dict_update d [("schema", PNone); ("table_name", tn)]))
  | [PDict d; _; sch; PStr "."; tn] => Ok (PDict (dict_update d [("schema", sch); ("table_name", tn)]))
  | _ => Unsupported "index_table_name form"
  end.
Definition act_index_pid (args : list pyval) : res pyval :=
  match args with
  | [PStr c] => Ok (PDict [("detailed_columns", PList [PDict [("name", PStr c); ("order", PStr "ASC"); ("nulls", PStr "LAST")]]);
                           ("columns", PList [PStr c])])
  | [PDict d; PStr w] =>
      (match dict_get d "detailed_columns" with
       | Some (PList (PDict first :: rest)) =>
           let first' := if String.eqb (upper w) "DESC" || String.eqb (upper w) "ASC" then dict_set first "order" (PStr (upper w))
                         else dict_set first "nulls" (PStr w) in
           Ok (PDict (dict_set d "detailed_columns" (PList (PDict first' :: rest))))
       | _ => Raise KeyError
       end)
  | [PDict d; PStr ","; PDict e] =>
      (match dict_get d "columns", dict_get d "detailed_columns", dict_get e "columns", dict_get e "detailed_columns" with
       | Some (PList c1), Some (PList dc1), Some (PList c2), Some (PList dc2) =>
           Ok (PDict (dict_set (dict_set d "columns" (PList (c1 ++ c2))) "detailed_columns" (PList (dc1 ++ dc2))))
       | _, _, _, _ => Raise KeyError
       end)
  | _ => Unsupported "index_pid form"
  end.
Definition act_expr_index (args : list pyval) : res pyval :=
  match args with
  | [PDict d; PStr "("; PDict e; PStr ")"] =>
      (match dict_get e "detailed_columns", dict_get e "columns" with
       | Some (PList dc), Some (PList c) =>
           let ext (t : adict) (k : string) (l : list pyval) : res adict :=
               match dict_get t k with
               | None => Ok (dict_set t k (PList l))
               | Some (PList old) => Ok (dict_set t k (PList (old ++ l)))
               | Some _ => Raise AttributeError
               end in
           do t1 <- ext d "detailed_columns" dc; do t2 <- ext t1 "columns" c; Ok (PDict t2)
       | _, _ => Raise KeyError
       end)
  | _ => Unsupported "expr index form"
  end.

(* table-level PRIMARY KEY (..) / UNIQUE (..) / FOREIGN KEY (..) *)
(* ASC / DESC in any letter case (sort direction after a key column) *)
Definition is_sort_word (v : pyval) : bool :=
  match v with PStr s => String.eqb (upper s) "ASC" || String.eqb (upper s) "DESC" | _ => false end.
Definition act_pkey (args : list pyval) : res pyval :=
  match args with
  | [PDict _; PStr "("; PList l; PStr ")"] => Ok (PDict [("primary_key", PList (filter (fun v => negb (is_sort_word v)) l))])
  | _ => Unsupported "pkey form"
  end.
Definition act_uniq (args : list pyval) : res pyval :=
  match args with
  | [PStr "UNIQUE"; PStr "("; PList l; PStr ")"] => Ok (PDict [("unique_statement", PDict [("columns", PList l)])])
  | _ => Unsupported "uniq form"
  end.
Definition act_foreign (args : list pyval) : res pyval :=
  match args with
  | [PStr "FOREIGN"; PStr "KEY"; PStr "("; PList l; PStr ")"] => Ok (PList l)
  | _ => Unsupported "foreign form"
  end.

(* BaseSQL.set_constraint *)
Definition set_constraint (t : adict) (ty : string) (c : adict) (name : pyval) : res adict :=
  let cns := if tr t "constraints" then (match dict_get t "constraints" with Some (PDict d) => Some d | _ => None end) else Some [] in
  match cns with
  | None => Raise TypeError
  | Some cd =>
      let old := if tr cd ty then (match dict_get cd ty with Some (PList l) => Some l | _ => None end) else Some [] in
      match old with
      | None => Raise AttributeError
      | Some l =>
          let c' := dict_update c [("constraint_name", name)] in
          Ok (dict_set t "constraints" (PDict (dict_set cd ty (PList (l ++ [PDict c'])))))
      end
  end.

Definition join_names (sep : string) (l : list pyval) : res string :=
  fold_left (fun acc v => do a <- acc; match v with PStr s => Ok (if String.eqb a "" then s else a ++ sep ++ s) | _ => Raise TypeError end) l (Ok "").

(* p_expression_table for  expr COMMA pkey | uniq | constraint uniq | constraint pkey | foreign ref | constraint foreign ref *)
Definition act_expr_table_item (args : list pyval) : res pyval :=
  match args with
  | [PDict t; PStr ","; PDict item] =>
      if dict_has item "primary_key" && negb (dict_has item "unique_statement") && Nat.eqb (List.length item) 1 then
        Ok (PDict (dict_update t item))                                                        (* expr COMMA pkey *)
      else if dict_has item "unique_statement" && Nat.eqb (List.length item) 1 then
        (* expr COMMA uniq *)
        match dict_get item "unique_statement" with
        | Some (PDict us) =>
            let t1 := dict_update t item in
            (match dict_get us "columns" with
             | Some (PList cols) =>
                 if (1 <? List.length cols)%nat then
                   do nm <- (match dict_get us "name" with Some n => Ok n | None => do j <- join_names "_" cols; Ok (PStr ("UC_" ++ j)) end);
                   do t2 <- set_constraint t1 "uniques" [("columns", PList cols)] nm; Ok (PDict t2)
                 else
                   (match cols, dict_get t1 "columns" with
                    | [c], Some (PList tcols) =>
                        Ok (PDict (dict_set t1 "columns"
                                            (PList (map (fun col => match col with
                                                                    | PDict cd => if (match dict_get cd "name" with Some n => (match n, c with PStr x, PStr y => String.eqb x y | _, _ => false end) | None => false end)
                                                                                  then PDict (dict_set cd "unique" (PBool true)) else col
                                                                    | _ => col end) tcols))))
                    | _, _ => Unsupported "uniq on a table without columns"
                    end)
             | _ => Unsupported "uniq columns form"
             end)
        | _ => Unsupported "uniq form"
        end
      else Unsupported "expr COMMA item"
  | [PDict t; PStr ","; PDict cns; PDict item] =>
      match constraint_name_of (PDict cns) with
      | None => Unsupported "expr COMMA x item"
      | Some name =>
        if dict_has item "unique_statement" && Nat.eqb (List.length item) 1 then
          match dict_get item "unique_statement" with
          | Some (PDict us) =>
              (match dict_get us "columns" with
               | Some cols => do t2 <- set_constraint (dict_update t item) "uniques" [("columns", cols)] name; Ok (PDict t2)
               | None => Raise KeyError end)
          | _ => Unsupported "constraint uniq form"
          end
        else if dict_has item "primary_key" && Nat.eqb (List.length item) 1 then
          match dict_get item "primary_key" with
          | Some cols => do t2 <- set_constraint (dict_update t item) "primary_keys" [("columns", cols)] name; Ok (PDict t2)
          | None => Raise KeyError
          end
        else if dict_has item "primary_key" && dict_has item "clustered_primary_key" && Nat.eqb (List.length item) 2 then
          (* CONSTRAINT n PRIMARY KEY CLUSTERED (...): both keys update the table, the constraint records the key columns *)
          match dict_get item "primary_key" with
          | Some cols => do t2 <- set_constraint (dict_update t item) "primary_keys" [("columns", cols)] name; Ok (PDict t2)
          | None => Raise KeyError
          end
        else Unsupported "expr COMMA constraint item"
      end
  | [PDict t; PStr ","; PList cols; PDict refd] =>
      (* expr COMMA foreign ref *)
      if list_has_str cols "constraint" then Unsupported "a foreign key column named constraint"
      else
      match dict_get refd "references" with
      | Some (PDict r) =>
          let t1 := dict_update t refd in
          let old := match dict_get t1 "ref_columns" with Some (PList l) => l | _ => [] end in
          (match dict_get r "columns" with
           | Some (PList rcols) =>
               do news <- (fix go (cs : list pyval) (i : nat) : res (list pyval) :=
                             match cs with
                             | [] => Ok []
                             | c :: rest =>
                                 match nth_error rcols i with
                                 | None => Raise IndexError
                                 | Some rc => do t <- go rest (S i);
                                              Ok (PDict (dict_set (adel (dict_set r "column" rc) "columns") "name" c) :: t)
                                 end
                             end) cols 0%nat;
               Ok (PDict (dict_set t1 "ref_columns" (PList (old ++ news))))
           | _ => Raise KeyError
           end)
      | _ => Unsupported "foreign ref form"
      end
  | [PDict t; PStr ","; PDict cns; PList cols; PDict refd] =>
      (* expr COMMA constraint foreign ref : the reference dict is shared between table["references"] and the constraint entry *)
      match constraint_name_of (PDict cns), dict_get refd "references" with
      | Some name, Some (PDict r) =>
          if list_has_str cols "constraint" then Unsupported "a foreign key column named constraint"
          else
          let nm := match cols with [c] => c | _ => PList cols end in
          let r' := dict_update (dict_set r "name" nm) [("constraint_name", name)] in
          let t1 := dict_update t [("references", PDict r')] in
          let cons0 := if tr t1 "constraints" then (match dict_get t1 "constraints" with Some (PDict d) => Some d | _ => None end) else Some [] in
          (match cons0 with
           | None => Raise TypeError
           | Some cd =>
               let old := if tr cd "references" then (match dict_get cd "references" with Some (PList l) => Some l | _ => None end) else Some [] in
               match old with
               | None => Raise AttributeError
               | Some l => Ok (PDict (dict_set t1 "constraints" (PDict (dict_set cd "references" (PList (l ++ [PDict r']))))))
               end
           end)
      | _, _ => Unsupported "constraint foreign ref form"
      end
  | [PDict t; PStr ","] => Ok (PDict t)
  | _ => Unsupported "expr COMMA form"
  end.

(* p_alter_default *)
Definition act_alter_default (args : list pyval) : res pyval :=
  match args with
  | PDict a :: rest =>
      let p_list := remove_par args in                        (* python p_list[1..] (p_list[0] = p[0] = p[1]) *)
      let lastv := last_val p_list in
      let is_for := match nth_error p_list 1 with Some (PStr w) => String.eqb (upper w) "FOR" | _ => false end in
      let oldd := match dict_get a "default" with Some (PDict d) => Some d | _ => None end in
      do cv <- (if is_for then Ok (lastv, PNone)
                else match oldd with
                     | Some d => if tr d "value"
                                 then (match dict_get d "value", lastv with
                                       | Some (PStr v), PStr w => Ok (PNone, PStr (v ++ " " ++ w))
                                       | _, _ => Raise TypeError end)
                                 else Ok (PNone, lastv)
                     | None => if tr a "default" then Raise AttributeError else Ok (PNone, lastv)
                     end);
      let '(column, value) := cv in
      do a1 <- (if negb (dict_has a "default")
                then Ok (dict_set a "default" (PDict [("constraint_name", PNone); ("columns", column); ("value", value)]))
                else match oldd with
                     | Some d =>
                         let c := if tr d "column" then (match dict_get d "column" with Some v => v | None => PNone end) else column in
                         let v := if truthy_a value then value else (match dict_get d "value" with Some x => x | None => PNone end) in
                         Ok (dict_set a "default" (PDict (dict_update d [("columns", c); ("value", v)])))
                     | None => Raise AttributeError
                     end);
      (* if "constraint" in p[3] *)
      match nth_error args 2 with
      | None => Raise IndexError
      | Some (PDict c3) =>
          if dict_has c3 "constraint" then
            match constraint_name_of (PDict c3), dict_get a1 "default" with
            | Some n, Some (PDict d) => Ok (PDict (dict_set a1 "default" (PDict (dict_set d "constraint_name" n))))
            | _, _ => Raise TypeError
            end
          else Ok (PDict a1)
      | Some (PStr w) => if contains w "constraint" then Raise TypeError else Ok (PDict a1)
      | Some (PList l) => if list_has_str l "constraint" then Raise TypeError else Ok (PDict a1)
      | Some _ => Raise TypeError
      end
  | _ => Unsupported "alter_default form"
  end.

(* utils.check_spec *)
Definition spec_mapper : list (string * string) :=
  [("'pars_m_t'", "'" ++ String (ascii_of_nat 9) "'"); ("'pars_m_n'", "'" ++ String (ascii_of_nat 10) "'");
   ("'pars_m_dq'", String (ascii_of_nat 34) ""); ("pars_m_single", "'")].
Definition check_spec (s : string) : string :=
  match assoc s spec_mapper with
  | Some v => v
  | None => match List.find (fun kv => contains s (fst kv)) spec_mapper with
            | Some (k, v) => replace s k v
            | None => s
            end
  end.

(* p_f_call for the string-valued forms *)
Definition fcall_piece (v : pyval) : res string :=
  match v with
  | PStr s => Ok s
  | PList l => fold_left (fun acc x => do a <- acc; match x with PStr s => Ok (if String.eqb a "" then s else a ++ "," ++ s) | _ => Raise TypeError end) l (Ok "")
  | _ => Raise TypeError
  end.
Definition act_f_call (args : list pyval) : res pyval :=
  match args with
  | PStr f :: rest =>
      if String.eqb (upper f) "CAST" then Unsupported "f_call: CAST"
      else do v <- fold_left (fun acc x => do a <- acc; do p <- fcall_piece x; Ok (a ++ p)) args (Ok ""); Ok (PStr v)
  | _ => Unsupported "f_call form"
  end.

(* p_multi_id beyond a single id *)
Definition act_multi_id_more (args : list pyval) : res pyval :=
  match args with
  | [PStr a; PStr b] => Ok (PStr (a ++ " " ++ b))
  | [PDict d] => Ok (PDict d)
  | _ => Unsupported "multi_id form"
  end.

(* p_default : the forms with a list or with an earlier default *)
Definition act_default_more (args : list pyval) : res pyval :=
  match remove_par args with
  | [PStr "DEFAULT"; PList l] =>
      do j <- join_names " " l;
      Ok (PDict [("default", default_value j)])
  | [PDict d; PStr x] =>
      if contains x "FOR" then Unsupported "default ... FOR"
      else
        match dict_get d "default" with
        | Some dv =>
            do cur <- (match dv with PStr s => Ok s | PInt z => Ok (string_of_Z z) | _ => Unsupported "default: non-string earlier value" end);
            let item := if String.eqb x ")" || String.eqb x "(" || contains x "::" then x else " " ++ x in
            Ok (PDict (dict_set d "default" (PStr (replace (cur ++ item) "))" ")"))))
        | None => Raise KeyError
        end
  | _ => Unsupported "default form"
  end.


(* ---------- CREATE DOMAIN / CREATE TYPE (dialects/sql.py: class Domain, class Type) ------------------------------------------------------ *)
Definition is_dot_v (v : pyval) : bool := match v with PStr s => String.eqb s "." | _ => false end.
(* p_domain_name: p[0] = {}; schema = None unless "." in p_list, then p[3]; domain_name = p_list[-2] *)
Definition act_domain_name (args : list pyval) : res pyval :=
  do sch <- (if existsb is_dot_v args then match nth_error args 2 with Some v => Ok v | None => Raise IndexError end else Ok PNone);
  do nm_ <- match nth_error (rev args) 1 with Some v => Ok v | None => Raise IndexError end;
  Ok (PDict [("schema", sch); ("domain_name", nm_)]).
(* p_expression_domain_as : expr -> domain_name id LP pid RP *)
Definition act_domain_as (args : list pyval) : res pyval :=
  match args with
  | [PDict d; PStr base; _; vals; _] =>
      let d1 := dict_set (dict_set d "base_type" (PStr base)) "properties" (PDict []) in
      Ok (PDict (if String.eqb (upper base) "ENUM" then dict_set d1 "properties" (PDict [("values", vals)]) else d1))
  | _ => Unsupported "domain form"
  end.
(* p_type_name *)
Definition act_type_name (args : list pyval) : res pyval :=
  if existsb is_dot_v args then
    do sch <- match nth_error args 1 with Some v => Ok v | None => Raise IndexError end;
    do nm_ <- match nth_error args 3 with Some v => Ok v | None => Raise IndexError end;
    Ok (PDict [("schema", sch); ("type_name", nm_)])
  else
    do nm_ <- match nth_error args 1 with Some v => Ok v | None => Raise IndexError end;
    Ok (PDict [("schema", PNone); ("type_name", nm_)]).
(* p_type_definition for `type_name id LP pid RP`: remove_par, properties {}, base_type = p_list[2], then process_str_base_type
   (ENUM: values; OBJECT: attributes when the first value contains "type").  A base type spelled TABLE takes the columns branch
   of add_columns_property_for_type: not modelled *)
Definition act_type_definition_pid (args : list pyval) : res pyval :=
  match filter (fun v => match v with PStr s => negb (String.eqb s "(" || String.eqb s ")") | _ => true end) args with
  | [PDict d; PStr base; PList vals] =>
      if String.eqb base "TABLE" || truthy_a (match dict_get d "properties" with Some v => v | None => PNone end)
      then Unsupported "type_definition: TABLE / existing properties"
      else
        let props :=
            if String.eqb (upper base) "ENUM" then [("values", PList vals)]
            else if String.eqb (upper base) "OBJECT" then
                   match vals with
                   | PStr v0 :: _ => if contains v0 "type" then [("attributes", PList vals)] else []
                   | _ => []
                   end
                 else [] in
        match vals with
        | PStr _ :: _ => Ok (PDict (dict_set (dict_set d "properties" (PDict props)) "base_type" (PStr base)))
        | PDict c0 :: _ =>
            (* type_name id LP multiple_column_names RP: the list holds column dicts; `"type" in p_list[3][0]` is a key test *)
            let props2 :=
                if String.eqb (upper base) "ENUM" then [("values", PList vals)]
                else if String.eqb (upper base) "OBJECT" then (if dict_has c0 "type" then [("attributes", PList vals)] else [])
                else [] in
            Ok (PDict (dict_set (dict_set d "properties" (PDict props2)) "base_type" (PStr base)))
        | _ => Unsupported "type_definition: values"
        end
  | _ => Unsupported "type_definition form"
  end.


(* ---------- batch 3: OPTIONS (...), key = value lists, Hive clauses, generated columns ---------------------------------------------------- *)
Definition is_list_v (v : pyval) : bool := match v with PList _ => true | _ => false end.
Definition str_is (v : pyval) (s : string) : bool := match v with PStr x => String.eqb x s | _ => false end.
(* p_id_equals *)
Definition act_id_equals (args : list pyval) : res pyval :=
  match args with
  | PStr k :: _ =>
    let lastv := List.last args PNone in
    if negb (str_is lastv ")" || str_is lastv "]") then Ok (PDict [(k, lastv)])
    else if Nat.ltb 5 (List.length args) && is_list_v (nth 4 args PNone) then Ok (PDict [(k, nth 4 args PNone)])
    else let pen := nth (List.length args - 2) args PNone in
         if negb (str_is pen "(") then Ok (PDict [(k, pen)]) else Ok (PDict [(k, PStr "()")])
  | _ => Unsupported "id_equals: key is not a string"
  end.
(* p_multi_id_equals *)
Definition act_multi_id_equals (args : list pyval) : res pyval :=
  do d <- fold_res (fun (acc : list (string * pyval)) (it : pyval) =>
                      if str_is it "," then Ok acc
                      else match it with PDict d => Ok (dict_update acc d) | _ => Unsupported "multi_id_equals: item is not a dict" end)
                   args [];
  Ok (PDict d).
(* BigQuery.p_options / p_multiple_options *)
Definition act_options (args : list pyval) : res pyval :=
  match args with
  | [PStr _; _; PDict d; _] => Ok (PDict [("options", PList (map (fun kv => PDict [kv]) d))])
  | _ => Unsupported "options form"
  end.
Definition act_multiple_options (args : list pyval) : res pyval :=
  match args with
  | [PDict a] => Ok (PDict a)
  | [PDict a; PDict b] =>
      match dict_get a "options", dict_get b "options" with
      | Some (PList x), Some (PList y) => Ok (PDict (dict_set a "options" (PList (x ++ y)%list)))
      | _, _ => Unsupported "multiple_options: options lists"
      end
  | _ => Unsupported "multiple_options form"
  end.
(* p_multi_id_statement: " ".join(p_list[1:]) *)
Definition act_multi_id_statement (args : list pyval) : res pyval :=
  match all_strs args with
  | Some ss => Ok (PStr (join " " ss))
  | None => Unsupported "multi_id_statement: non-string item"
  end.
(* HQL.p_pid_with_type *)
Definition act_pid_with_type (args : list pyval) : res pyval :=
  match filter not_par args with
  | [PList l] => Ok (PList l)
  | [PList l; _; c] => Ok (PList (l ++ [c])%list)
  | [PList l; c] => Ok (PList (l ++ [c])%list)
  | [c] => Ok (PList [c])
  | _ => Unsupported "pid_with_type form"
  end.
(* p_generated / p_gen_always *)
Definition act_generated (args : list pyval) : res pyval :=
  match args with
  | _ :: second :: _ =>
    let n := List.length args in
    let stored := match List.last args PNone with
                  | PStr l => Nat.ltb 2 n && String.eqb (lower l) "stored"
                  | _ => false end in
    (* `p_list[-1].lower()` on a non-string raises; the forms reaching here end in a string or have exactly two items *)
    match List.last args PNone with
    | PStr _ => Ok (PDict [("generated", PDict [("always", PBool true); ("as", second); ("stored", PBool stored)])])
    | _ => if Nat.ltb 2 n then Raise AttributeError
           else Ok (PDict [("generated", PDict [("always", PBool true); ("as", second); ("stored", PBool false)])])
    end
  | _ => Unsupported "generated form"
  end.
(* p_pkey with the ID alternative (CLUSTERED / NONCLUSTERED) *)
Definition act_pkey_id (args : list pyval) : res pyval :=
  match filter not_par args with
  | [PDict _; PStr w; PList l] =>
      match all_strs l with
      | None => Raise AttributeError
      | Some ss =>
        let keyv := ("primary_key", PList (filter (fun v => negb (is_sort_word v)) l)) in
        if String.eqb w "CLUSTERED" then
          let step (st : option string * option string * list pyval) (item : string) :=
              let '(column, order, acc) := st in
              let '(column, order) := if negb (String.eqb (upper item) "ASC" || String.eqb (upper item) "DESC")
                                      then (Some item, order) else (column, Some (upper item)) in
              match column, order with
              | Some c, Some o => if negb (String.eqb c "") && negb (String.eqb o "")
                                  then (None, None, (acc ++ [PDict [("column", PStr c); ("order", PStr o)]])%list)
                                  else (column, order, acc)
              | _, _ => (column, order, acc)
              end in
          let '(_, _, cols) := fold_left step ss (None, None, []) in
          Ok (PDict [("clustered_primary_key", PList cols); keyv])
        else Ok (PDict [keyv])
      end
  | _ => Unsupported "pkey ID form"
  end.


(* ---------- CHECK: p_check_st, p_check_ex, the check of a column (p_defcolumn) and of a table (extract_check_data) ------------------------ *)
Fixpoint check_items (fuel : nat) (items : list pyval) (acc : list pyval) : res (list pyval) :=
  match fuel with
  | O => Ok acc
  | S f =>
    match items with
    | [] => Ok acc
    | it :: rest =>
      let dotted := match rest with nxt :: _ => str_is nxt "." | [] => false end in
      if dotted then
        match all_strs (firstn 3 items) with
        | Some ss => check_items f (skipn 3 items) (acc ++ [PStr (join "" ss)])%list
        | None => Raise TypeError
        end
      else
        match it with
        | PList l => match all_strs l with
                     | Some ss => check_items f rest (acc ++ [PStr ("(" ++ join "," ss ++ ")")])%list
                     | None => Raise TypeError end
        | _ => check_items f rest (acc ++ [it])%list
        end
    end
  end.
Definition act_check_st (args : list pyval) : res pyval :=
  let pl := filter not_par args in
  match pl with
  | first :: items =>
    do _ <- match List.last pl PNone with
            | PDict lastd => if tr lastd "args" then Unsupported "check_st: function arguments" else Ok tt
            | _ => Ok tt
            end;
    match first with
    | PDict d =>
        match dict_get d "check" with
        | Some (PList old) => do l <- check_items (S (List.length items)) items old; Ok (PDict (dict_set d "check" (PList l)))
        | _ => Raise KeyError
        end
    | _ => do l <- check_items (S (List.length items)) items []; Ok (PDict [("check", PList l)])
    end
  | [] => Raise IndexError
  end.
Definition act_check_ex (args : list pyval) : res pyval :=
  match args with
  | [PDict c] => if dict_has c "constraint" then Raise IndexError
                 else if dict_has c "check" then Ok (PDict c) else Unsupported "check_ex: neither constraint nor check"
  | [PDict c; PDict st] =>
      if dict_has c "constraint" then
        match constraint_name_of (PDict c), dict_get st "check" with
        | Some name, Some (PList (first :: more)) =>
            let in_first := match first with PStr x => contains x "in_statement" | PDict d => dict_has d "in_statement" | _ => false end in
            if in_first then Ok (PDict [("check", PDict [("constraint_name", name); ("statement", first)])])
            else match all_strs (first :: more) with
                 | Some ss => Ok (PDict [("check", PDict [("constraint_name", name); ("statement", PStr (join " " ss))])])
                 | None => Raise TypeError
                 end
        | _, _ => Unsupported "check_ex: constraint check form"
        end
      else Unsupported "check_ex: two items without a constraint"
  | _ => Unsupported "check_ex form"
  end.
(* Column.set_check_in_columm (after fix 4e5a0b6: a string is one item) *)
Definition check_text (l : list pyval) : res string :=
  do r <- fold_res (fun (st : nat * string) (it : pyval) =>
              let '(n, acc) := st in
              match it with
              | PList xs => match all_strs xs with Some ss => Ok (S n, acc ++ " (" ++ join ", " ss ++ ")") | None => Raise TypeError end
              | PStr x => Ok (S n, if Nat.eqb n 0 then acc ++ x else acc ++ " " ++ x)
              | PDict ((k, PStr v) :: _) => let x := k ++ " = " ++ v in Ok (S n, if Nat.eqb n 0 then acc ++ x else acc ++ " " ++ x)
              | _ => Unsupported "check item"
              end) l (0, "");
  Ok (snd r).
Definition check_post (d : adict) : res adict :=
  match dict_get d "check" with
  | Some c =>
      if truthy_a c then
        match c with
        | PDict _ => Ok d
        | PStr _ => Ok d
        | PList (PDict x :: rest) => if tr x "in_statement" then Ok d else (do s <- check_text (PDict x :: rest); Ok (dict_set d "check" (PStr s)))
        | PList l => do s <- check_text l; Ok (dict_set d "check" (PStr s))
        | _ => Unsupported "column check value"
        end
      else Ok d
  | None => Ok d
  end.
(* Table: extract_check_data for `expr COMMA check_ex` *)
Definition act_expr_check (args : list pyval) : res pyval :=
  match args with
  | [PDict t; _; PDict item] =>
      match dict_get item "check" with
      | Some (PList l) =>
          match all_strs l with
          | Some ss =>
              let chk := PDict [("constraint_name", PNone); ("statement", PStr (join " " ss))] in
              let old := if tr t "checks" then match dict_get t "checks" with Some (PList o) => o | _ => [] end else [] in
              Ok (PDict (dict_set t "checks" (PList (old ++ [chk])%list)))
          | None => Raise TypeError
          end
      | Some (PDict c) =>
          match dict_get c "constraint_name" with
          | Some name =>
              do t2 <- set_constraint t "checks" c name;
              let chk := PDict (dict_set c "constraint_name" name) in
              let old := if tr t2 "checks" then match dict_get t2 "checks" with Some (PList o) => o | _ => [] end else [] in
              Ok (PDict (dict_set t2 "checks" (PList (old ++ [chk])%list)))
          | None => Raise KeyError
          end
      | _ => Unsupported "table check form"
      end
  | _ => Unsupported "expr COMMA check_ex form"
  end.


(* ---------- batch 7: p_create_schema in general, database forms, multi_id_or_string ------------------------------------------------------------ *)
Definition list_has (args : list pyval) (w : string) : bool := existsb (fun v => str_is v w) args.
Fixpoint index_of (args : list pyval) (w : string) (i : nat) : option nat :=
  match args with [] => None | v :: r => if str_is v w then Some i else index_of r w (S i) end.
(* set_properties_for_schema_and_database; pl = p_list (with the leading None) *)
Definition set_props_sd (d : list (string * pyval)) (pl : list pyval) : res (list (string * pyval)) :=
  let n := List.length pl in
  if negb (tr d "properties") then
    let props := if Nat.eqb n 3 then Some (List.last pl PNone)
                 else if Nat.ltb 3 n then
                        match nth (n - 3) pl PNone with
                        | PStr k => Some (PDict [(k, List.last pl PNone)])
                        | _ => None end
                      else Some (PDict []) in
    match props with
    | None => Raise TypeError
    | Some pr => Ok (if truthy_a pr then dict_set d "properties" pr else d)
    end
  else
    match dict_get d "properties", nth (n - 3) pl PNone with
    | Some (PDict pd), PStr k => Ok (dict_set d "properties" (PDict (dict_set pd k (List.last pl PNone))))
    | _, _ => Raise AttributeError
    end.
Definition act_create_schema_gen (args : list pyval) : res pyval :=
  let pl := PNone :: args in
  let n := List.length pl in
  let p0 := if list_has pl "EXISTS" then [("if_not_exists", PBool true)] else [] in
  do '(p0a, auth_index) <-
     match nth 1 pl PNone with
     | PDict d =>
         if list_has pl "COMMENT" then Ok (dict_set d "comment" (List.last pl PNone), None)
         else (do d2 <- set_props_sd d pl; Ok (d2, None))
     | _ =>
         match index_of pl "AUTHORIZATION" 0 with
         | Some ai =>
             if str_is (nth 2 pl PNone) "AUTHORIZATION"
             then Ok ([("schema_name", nth 3 pl PNone); ("authorization", nth 3 pl PNone)], Some ai)
             else Ok ([("schema_name", nth 2 pl PNone); ("authorization", List.last pl PNone)], Some ai)
         | None => Ok (p0, None)
         end
     end;
  do p0b <-
     (if negb (tr p0a "schema_name") && (match List.last pl PNone with PStr _ => true | _ => false end) then
        let cand := match auth_index with
                    | Some ai => (match nth (ai - 1) pl PNone with PNone => nth (ai + 1) pl PNone | v => v end)
                    | None => if list_has pl "=" then nth 2 pl PNone else List.last pl PNone
                    end in
        match cand with
        | PStr nm_ => Ok (dict_set p0a "schema_name" (PStr (replace nm_ "`" "")))
        | _ => Raise AttributeError
        end
      else Ok p0a);
  if Nat.ltb 4 n && (match auth_index with Some (S _) => false | _ => true end) && list_has pl "." then
    match nth (n - 3) pl PNone with
    | PStr pr => Ok (PDict (dict_set p0b "project" (PStr (replace pr "`" ""))))
    | _ => Raise AttributeError
    end
  else Ok (PDict p0b).

Definition action_more (norm : bool) (prod : string) (args : list pyval) : res pyval :=
  match words prod with
  | lhs :: _ :: _ =>
    if String.eqb lhs "create_table" then act_create_table_g args
    else if String.eqb prod "t_name -> id DOT id DOT id" then act_t_name3 args
    else if String.eqb lhs "alt_table" then act_alt_table args
    else if String.eqb prod "constraint -> CONSTRAINT id" then act_constraint args
    else if String.eqb prod "pid -> pid COMMA id" then act_pid_more args
    else if String.eqb prod "alter_drop_column -> alt_table DROP COLUMN id" then
      match args with [PDict a; _; _; c] => Ok (PDict (dict_set a "columns_to_drop" (PList [c]))) | _ => Unsupported "alter_drop_column form" end
    else if String.eqb prod "alter_rename_column -> alt_table RENAME COLUMN id id id" then
      match args with
      | [PDict a; _; _; x; _; z] => Ok (PDict (dict_set a "columns_to_rename" (PList [PDict [("from", x); ("to", z)]])))
      | _ => Unsupported "alter_rename_column form" end
    else if String.eqb prod "alter_column_add -> alt_table ADD defcolumn" then
      match args with [PDict a; _; c] => Ok (PDict (dict_set a "columns" (PList [c]))) | _ => Unsupported "alter_column_add form" end
    else if String.eqb prod "alter_column_modify -> alt_table MODIFY COLUMN defcolumn" then
      match args with [PDict a; _; _; c] => Ok (PDict (dict_set a "columns_to_modify" (PList [c]))) | _ => Unsupported "alter_column_modify form" end
    else if String.eqb prod "alter_column_sql_server -> alt_table ALTER COLUMN defcolumn" then
      match args with [PDict a; _; _; c] => Ok (PDict (dict_set a "columns_to_modify" (PList [c]))) | _ => Unsupported "alter_column_sql_server form" end
    else if String.eqb prod "alter_column_modify_oracle -> alt_table MODIFY defcolumn" then
      match args with [PDict a; _; c] => Ok (PDict (dict_set a "columns_to_modify" (PList [c]))) | _ => Unsupported "alter_column_modify_oracle form" end
    else if String.eqb lhs "alter_default" then act_alter_default args
    else if String.eqb lhs "alter_primary_key" then act_alter_key "primary_key" args
    else if String.eqb lhs "alter_unique" then act_alter_key "unique" args
    else if String.eqb lhs "alter_foreign" then act_alter_foreign args
    else if String.eqb prod "expr -> alter_foreign ref" || String.eqb prod "expr -> alter_drop_column" || String.eqb prod "expr -> alter_unique"
            || String.eqb prod "expr -> alter_primary_key" || String.eqb prod "expr -> alter_column_add"
            || String.eqb prod "expr -> alter_rename_column" || String.eqb prod "expr -> alter_column_modify"
            || String.eqb prod "expr -> alter_column_sql_server" || String.eqb prod "expr -> alter_column_modify_oracle"
            || String.eqb prod "expr -> alter_default" then act_expr_alter args
    else if String.eqb lhs "create_index" then act_create_index args
    else if String.eqb lhs "index_table_name" then act_index_table_name args
    else if String.eqb lhs "index_pid" then act_index_pid args
    else if String.eqb prod "expr -> index_table_name LP index_pid RP" then act_expr_index args
    (* clauses after the column list (C11): every one of them sets one key of the table entity and looks at nothing else *)
    else if String.eqb prod "tablespace -> TABLESPACE id" then
      match args with
      | [PStr "TABLESPACE"; name] => Ok (PDict [("tablespace_name", name); ("properties", PNone); ("type", PNone); ("temporary", PBool false)])
      | _ => Unsupported "tablespace form" end
    else if String.eqb prod "expr -> expr tablespace" then
      match args with [PDict t; v] => Ok (PDict (dict_set t "tablespace" v)) | _ => Unsupported "expr tablespace form" end
    else if String.eqb prod "expr -> expr STORED AS id" then
      match args with [PDict t; _; _; v] => Ok (PDict (dict_set t "stored_as" v)) | _ => Unsupported "stored as form" end
    else if String.eqb prod "expr -> expr LOCATION STRING" then
      match args with [PDict t; _; v] => Ok (PDict (dict_set t "location" v)) | _ => Unsupported "location form" end
    else if String.eqb prod "expr -> expr ENGINE EQ id" then
      match args with [PDict t; _; _; v] => Ok (PDict (dict_set t "engine" v)) | _ => Unsupported "engine form" end
    else if String.eqb prod "option_comment -> COMMENT EQ STRING" then
      match args with [_; _; v] => Ok (PDict [("comment", v)]) | _ => Unsupported "option_comment form" end
    else if String.eqb prod "expr -> expr option_comment" then
      match args with
      | [PDict t; PDict c] => Ok (PDict (match c with [] => t | _ => dict_update t c end))
      | _ => Unsupported "expr option_comment form" end
    else if String.eqb prod "using -> USING id" then
      match args with [_; v] => Ok (PDict [("using", v)]) | _ => Unsupported "using form" end
    else if String.eqb prod "expr -> expr using" then
      match args with [PDict t; PDict u] => Ok (PDict (dict_update t u)) | _ => Unsupported "expr using form" end
    else if String.eqb prod "expr -> expr IN id" then
      match args with [PDict t; _; v] => Ok (PDict (dict_set t "tablespace" v)) | _ => Unsupported "expr IN form" end
    else if String.eqb prod "comment -> COMMENT STRING" then
      match args with [_; PStr c] => Ok (PDict [("comment", PStr (check_spec c))]) | _ => Unsupported "comment form" end
    else if String.eqb prod "expr -> expr COMMENT STRING" then
      match args with [PDict t; _; PStr c] => Ok (PDict (dict_set t "comment" (PStr (check_spec c)))) | _ => Unsupported "expr comment form" end
    else if String.eqb prod "autoincrement -> AUTOINCREMENT" then Ok (PDict [("autoincrement", PBool true)])
    else if String.eqb prod "collate -> COLLATE id" || String.eqb prod "collate -> COLLATE STRING" then
      match args with [_; v] => Ok (PDict [("collate", v)]) | _ => Unsupported "collate form" end
    else if String.eqb prod "defcolumn -> defcolumn comment" || String.eqb prod "defcolumn -> defcolumn autoincrement"
            || String.eqb prod "defcolumn -> defcolumn collate" || String.eqb prod "defcolumn -> defcolumn options"
            || String.eqb prod "defcolumn -> defcolumn encode" || String.eqb prod "defcolumn -> defcolumn generated"
            || String.eqb prod "defcolumn -> defcolumn as_virtual" || String.eqb prod "defcolumn -> defcolumn c_property" then act_defcolumn args
    else if String.eqb prod "column -> column comment" then
      match args with
      | [PDict col; PDict c] =>
          if dict_has col "index_stmt" || dict_has c "type" then Unsupported "column comment: index / type"
          else Ok (PDict (if tr c "comment" then dict_update col c else col))
      | _ => Unsupported "column comment form" end
    else if String.eqb prod "id_or_string -> id" || String.eqb prod "id_or_string -> STRING" || String.eqb prod "dot_id_or_id -> id"
            || String.eqb prod "dot_id_or_id -> dot_id" then
      match args with [v] => Ok v | _ => Unsupported "unit form" end
    else if String.eqb prod "pid -> STRING" then match args with [PStr x] => Ok (PList [PStr x]) | _ => Unsupported "pid form" end
    else if String.eqb prod "pid -> pid id" || String.eqb prod "pid -> pid STRING" then
      match args with [PList l; PStr x] => Ok (PList (l ++ [PStr x])) | _ => Unsupported "pid form" end
    else if String.eqb prod "pid -> pid COMMA STRING" then
      match args with [PList l; PStr ","; PStr x] => Ok (PList (l ++ [PStr x])) | _ => Unsupported "pid form" end
    else if String.eqb prod "pid -> id LP RP" || String.eqb prod "pid -> STRING LP RP" then
      match args with [PStr a; PStr b; PStr c] => Ok (PList [PStr (a ++ b ++ c)]) | _ => Unsupported "pid form" end
    else if String.eqb prod "dot_id -> id DOT id" || String.eqb prod "dot_id -> dot_id DOT id" then
      match args with [PStr a; _; PStr b] => Ok (PStr (a ++ "." ++ b)) | _ => Unsupported "dot_id form" end
    else if String.eqb lhs "f_call" then act_f_call args
    else if String.eqb prod "multi_id -> multi_id id" || String.eqb prod "multi_id -> f_call" || String.eqb prod "multi_id -> multi_id f_call" then
      match args with
      | [PStr a] => Ok (PStr a)
      | _ => act_multi_id_more args
      end
    else if String.eqb prod "funct_expr -> LP multi_id RP" then
      match args with [_; v; _] => Ok v | _ => Unsupported "funct_expr form" end
    else if String.eqb prod "default -> DEFAULT LP pid RP" || String.eqb prod "default -> default id" || String.eqb prod "default -> default dot_id" then
      act_default_more args
    else if String.eqb prod "default -> DEFAULT f_call" then
      match args with
      | [PStr "DEFAULT"; PStr v] => Ok (PDict [("default", default_value v)])
      | _ => Unsupported "default f_call form" end
    else if String.eqb prod "pkey_statement -> PRIMARY KEY" then Ok (PDict [("primary_key", PNone)])
    else if String.eqb prod "pkey -> pkey_statement LP pid RP" then act_pkey args
    else if String.eqb prod "uniq -> UNIQUE LP pid RP" then act_uniq args
    else if String.eqb prod "foreign -> FOREIGN KEY LP pid RP" then act_foreign args
    else if String.eqb prod "expr -> expr COMMA pkey" || String.eqb prod "expr -> expr COMMA uniq"
            || String.eqb prod "expr -> expr COMMA constraint uniq" || String.eqb prod "expr -> expr COMMA constraint pkey"
            || String.eqb prod "expr -> expr COMMA foreign ref" || String.eqb prod "expr -> expr COMMA constraint foreign ref"
            || String.eqb prod "expr -> expr COMMA" then act_expr_table_item args
    else if String.eqb lhs "domain_name" then act_domain_name args
    else if String.eqb prod "expr -> domain_name id LP pid RP" then act_domain_as args
    else if String.eqb lhs "type_create" then Ok PNone
    else if String.eqb lhs "type_name" then act_type_name args
    else if String.eqb prod "type_definition -> type_name id LP pid RP"
            || String.eqb prod "type_definition -> type_name id LP multiple_column_names RP" then act_type_definition_pid args
    else if String.eqb prod "multiple_column_names -> column" then
      match args with [PDict c] => Ok (PList [PDict c]) | _ => Unsupported "multiple_column_names form" end
    else if String.eqb prod "multiple_column_names -> multiple_column_names COMMA" then
      match args with [PList l; _] => Ok (PList l) | _ => Unsupported "multiple_column_names form" end
    else if String.eqb prod "multiple_column_names -> multiple_column_names column" then
      match args with [PList l; c] => Ok (PList (l ++ [c])%list) | _ => Unsupported "multiple_column_names form" end
    else if String.eqb prod "expr -> type_definition" then
      match args with [PDict d] => Ok (PDict d) | _ => Unsupported "unit production on a non-dict" end
    else if String.eqb lhs "id_equals" then act_id_equals args
    else if String.eqb lhs "multi_id_equals" then act_multi_id_equals args
    else if String.eqb lhs "options" then act_options args
    else if String.eqb lhs "multiple_options" then act_multiple_options args
    else if String.eqb prod "expr -> expr multiple_options" then
      match args with [PDict t; PDict o] => Ok (PDict (dict_update t o)) | _ => Unsupported "expr options form" end
    else if String.eqb prod "multi_id_statement -> id_or_string id_or_string" || String.eqb prod "multi_id_statement -> multi_id_statement id_or_string"
            || String.eqb prod "multi_id_statement -> multi_id_statement EQ id_or_string" then act_multi_id_statement args
    else if String.eqb lhs "pid_with_type" then act_pid_with_type args
    else if String.eqb prod "expr -> expr PARTITIONED BY pid_with_type" || String.eqb prod "expr -> expr PARTITIONED BY LP pid RP" then
      match args with PDict t :: _ => Ok (PDict (dict_set t "partitioned_by" (List.last (filter not_par args) PNone))) | _ => Unsupported "partitioned by form" end
    else if String.eqb lhs "row_format" then Ok (PDict [("serde", PBool (str_is (List.last args PNone) "SERDE"))])
    else if String.eqb prod "expr -> expr row_format id" || String.eqb prod "expr -> expr row_format STRING" then
      match args with
      | [PDict t; PDict rf; PStr v] =>
          (match dict_get rf "serde" with
           | Some (PBool true) => Ok (PDict (dict_set t "row_format" (PDict [("serde", PBool true); ("java_class", PStr v)])))
           | Some (PBool false) => Ok (PDict (dict_set t "row_format" (PStr (check_spec v))))
           | _ => Unsupported "row format: serde flag" end)
      | _ => Unsupported "row format form" end
    else if String.eqb lhs "property" then
      match args with [PStr k; v] => Ok (PDict [(k, v)]) | _ => Unsupported "property form" end
    else if String.eqb lhs "properties" then
      match args with [PDict a] => Ok (PDict a) | [PDict a; PDict b] => Ok (PDict (dict_update a b)) | _ => Unsupported "properties form" end
    else if String.eqb lhs "gen_always" then Ok (PDict [("generated", PDict [("always", PBool true)])])
    else if String.eqb lhs "generated" then act_generated args
    else if String.eqb prod "pkey -> pkey_statement ID LP pid RP" then act_pkey_id args
    else if String.eqb prod "foreign -> FOREIGN KEY" then Ok PNone
    else if String.eqb prod "encode -> ENCODE id" then
      match args with [_; v] => Ok (PDict [("encode", v)]) | _ => Unsupported "encode form" end
    else if String.eqb prod "STRING -> STRING STRING_BASE" then act_string args
    else if startswith prod "expr -> expr LOCATION" then
      match args with
      | PDict t :: _ =>
          if Nat.eqb (List.length args) 8 then
            match all_strs (skipn 3 args) with Some ss => Ok (PDict (dict_set t "location" (PStr (join "" ss)))) | None => Raise TypeError end
          else Ok (PDict (dict_set t "location" (List.last args PNone)))
      | _ => Unsupported "location form" end
    else if String.eqb prod "expr -> expr STORED AS id STRING" || String.eqb prod "expr -> expr STORED AS id STRING id STRING" then
      match args with
      | [PDict t; _; _; PStr a; va] => Ok (PDict (dict_set t "stored_as" (PDict [(lower a, va)])))
      | [PDict t; _; _; PStr a; va; PStr b; vb] => Ok (PDict (dict_set t "stored_as" (PDict (dict_set [(lower b, vb)] (lower a) va))))
      | _ => Unsupported "stored as form" end
    else if String.eqb lhs "create_schema" then act_create_schema_gen args
    else if String.eqb lhs "c_schema" then (if Nat.eqb (List.length args) 3 then Ok (PDict [("remote", PBool true)]) else Ok PNone)
    else if String.eqb prod "create_database -> create_database multi_id_equals" || String.eqb prod "create_database -> create_database id id STRING"
            || String.eqb prod "create_database -> create_database options" then
      match args with PDict d :: _ => do d2 <- set_props_sd d (PNone :: args); Ok (PDict d2) | _ => Unsupported "create_database form" end
    else if String.eqb prod "database_base -> CREATE ID DATABASE id" then
      match args with [_; PStr w; _; name] => Ok (PDict [("database_name", name); (lower w, PBool true)]) | _ => Unsupported "database_base form" end
    else if String.eqb prod "database_base -> database_base clone" then
      match args with [PDict d; PDict c] => Ok (PDict (dict_update d c)) | _ => Unsupported "database_base clone form" end
    else if String.eqb prod "expr -> expr database_base" then
      match args with [PDict t; PDict b] => Ok (PDict (dict_update t b)) | _ => Unsupported "expr database_base form" end
    else if String.eqb prod "expr -> expr id" || String.eqb prod "expr -> expr clone" then
      (* p_expression_schema *)
      match args with
      | [PDict d; PDict c] => Ok (PDict (dict_update d c))
      | [PDict d; v] =>
          match dict_get d "schema" with
          | Some PNone | None => match rev d with (k, _) :: _ => Ok (PDict (dict_set d k v)) | [] => Raise IndexError end
          | Some _ => Ok (PDict (dict_set d "authorization" v))
          end
      | _ => Unsupported "expr id form" end
    else if String.eqb lhs "multi_id_or_string" then
      match args with
      | PList l :: _ => Ok (PList (l ++ [List.last args PNone])%list)
      | _ => match all_strs args with
             | Some ss => Ok (PStr (replace (replace (replace (join " " ss) " = " "=") "= " "") " . " "."))
             | None => Raise TypeError end
      end
    else if String.eqb prod "expr -> DROP TABLE id" then
      match args with [_; _; n] => Ok (PDict [("schema", PNone); ("table_name", n)]) | _ => Unsupported "drop form" end
    else if String.eqb prod "expr -> DROP TABLE id DOT id" then
      match args with [_; _; sch; _; n] => Ok (PDict [("schema", sch); ("table_name", n)]) | _ => Unsupported "drop form" end
    else if String.eqb prod "expr -> alter_check" then act_expr_alter args
    else if String.eqb lhs "period_for" then
      match args with [_; _; _; _; v; _] => Ok (PDict [("period_for_system_time", v)]) | _ => Unsupported "period_for form" end
    else if String.eqb prod "expr -> expr COMMA period_for" then
      match args with [PDict t; _; PDict pf] => Ok (PDict (dict_update t pf)) | _ => Unsupported "expr period_for form" end
    else if String.eqb prod "column -> column LP id id RP" then act_column args
    else if String.eqb lhs "equals" then
      match args with
      | [n; _; v] => Ok (PDict [("name", n); ("value", v)])
      | _ => Unsupported "equals form" end
    else if String.eqb lhs "with_args" then
      match args with
      | [first; second] =>
          let d := match first with PDict d => d | _ => [("properties", PList [])] end in
          if str_is second ")" then Ok (PDict d)
          else match dict_get d "properties" with
               | Some (PList l) => Ok (PDict (dict_set d "properties" (PList (l ++ [second])%list)))
               | _ => Raise KeyError end
      | [PDict d; second; third] =>
          if str_is second ")" then Ok (PDict d)
          else match dict_get d "properties" with
               | Some (PList l) => Ok (PDict (dict_set d "properties" (PList (l ++ [third])%list)))
               | _ => Raise KeyError end
      | _ => Unsupported "with_args form" end
    else if String.eqb prod "with -> WITH with_args" then
      match args with
      | [_; PDict wa] => match dict_get wa "properties" with
                         | Some pr => Ok (PDict [("with", PDict [("properties", pr); ("on", PNone)])])
                         | None => Raise KeyError end
      | _ => Unsupported "with form" end
    else if String.eqb prod "expr -> expr with" then
      match args with [PDict t; PDict w] => Ok (PDict (dict_update t w)) | _ => Unsupported "expr with form" end
    else if String.eqb prod "expr -> expr ON id" then
      match args with [PDict t; _; v] => Ok (PDict (dict_set t "on" v)) | _ => Unsupported "expr on form" end
    else if String.eqb prod "expr -> expr TEXTIMAGE_ON id" then
      match args with [PDict t; _; v] => Ok (PDict (dict_set t "textimage_on" v)) | _ => Unsupported "textimage form" end
    else if String.eqb prod "alter_check -> alt_table ADD check_ex" then
      match args with
      | [PDict a; _; PDict cx] =>
          if tr a "check" then Unsupported "alter_check: a second check"
          else match dict_get cx "check" with
               | Some (PDict c) => if dict_has c "constraint_name" then Ok (PDict (dict_set a "check" (PDict c)))
                                   else Unsupported "alter_check: check dict without a name"
               | Some (PList l) =>
                   if existsb (fun v => str_is v "constraint_name") l then Unsupported "alter_check: odd check list"
                   else Ok (PDict (dict_set a "check" (PDict [("constraint_name", PNone); ("statement", PList l)])))
               | _ => Raise KeyError end
      | _ => Unsupported "alter_check form" end
    else if String.eqb lhs "check_st" then act_check_st args
    else if String.eqb lhs "check_ex" then act_check_ex args
    else if String.eqb prod "defcolumn -> defcolumn check_ex" then
      match args with
      | [PDict d; PDict item] =>
          if tr d "check" then Unsupported "defcolumn: a second check"
          else match act_defcolumn [PDict (adel d "check"); PDict (adel item "check")] with
               | Ok (PDict r) => match dict_get item "check" with
                                 | Some c => do r2 <- check_post (dict_set r "check" c); Ok (PDict r2)
                                 | None => Ok (PDict r) end
               | other => other
               end
      | _ => Unsupported "defcolumn check_ex form" end
    else if String.eqb prod "expr -> expr COMMA check_ex" then act_expr_check args
    else if String.eqb lhs "in_statement" then
      match args with
      | [name; _; _; vals; _] => Ok (PDict [("in_statement", PDict [("name", name); ("in", vals)])])
      | _ => Unsupported "in_statement form" end
    else if String.eqb prod "defcolumn -> defcolumn foreign ref" then
      match args with [PDict d; PNone; PDict item] => act_defcolumn [PDict d; PDict item] | _ => Unsupported "defcolumn foreign ref form" end
    else if String.eqb prod "expr -> expr PARTITION BY LP pid RP" || String.eqb prod "expr -> expr PARTITION BY pid"
            || String.eqb prod "expr -> expr PARTITION BY id LP pid RP" || String.eqb prod "expr -> expr PARTITION BY id pid" then
      match filter not_par args with
      | [PDict t; _; _; PList cols] => Ok (PDict (dict_set t "partition_by" (PDict [("columns", PList cols); ("type", PNone)])))
      | [PDict t; _; _; PStr ty; PList cols] =>
          if String.eqb (upper ty) "RANGE_BUCKET" then Unsupported "partition by RANGE_BUCKET"
          else if contains ty "_TRUNC" then
            match cols with [] => Raise IndexError
            | _ => let tb := List.last cols PNone in
                   Ok (PDict (dict_set t "partition_by"
                                       (PDict ([("columns", PList (removelast cols)); ("type", PStr ty)]
                                               ++ (if truthy_a tb then [("trunc_by", tb)] else []))%list))) end
          else Ok (PDict (dict_set t "partition_by" (PDict [("columns", PList cols); ("type", PStr ty)])))
      | _ => Unsupported "partition by form" end
    else if String.eqb prod "as_virtual -> AS LP recursive_pid RP" then
      match args with [_; _; v; _] => Ok (PDict [("generated", PDict [("as", v)])]) | _ => Unsupported "as_virtual form" end
    else if String.eqb prod "multiple_tag_equals -> tag_equals" then
      match args with [PList l] => Ok (PList l) | _ => Unsupported "multiple_tag_equals form" end
    else if String.eqb prod "multiple_tag_equals -> multiple_tag_equals COMMA tag_equals" then
      match args with [PList a; _; PList b] => Ok (PList (a ++ b)%list) | _ => Unsupported "multiple_tag_equals form" end
    else if String.eqb lhs "option_with_tag" then
      match List.last (filter not_par args) PNone with
      | PList [x] => Ok (PDict [("with_tag", x)])
      | PList l => Ok (PDict [("with_tag", PList l)])
      | PStr x => (* len(str) > 1 keeps the string, a one-character string gives its first character: the same string *)
                  if String.eqb x "" then Raise IndexError else Ok (PDict [("with_tag", PStr x)])
      | _ => Unsupported "option_with_tag form" end
    else if String.eqb prod "expr -> expr option_with_tag" then
      match args with [PDict t; PDict o] => Ok (PDict (dict_update t o)) | _ => Unsupported "expr with tag form" end
    else if String.eqb prod "defcolumn -> defcolumn option_with_tag" || String.eqb prod "defcolumn -> defcolumn option_order_noorder"
            || String.eqb prod "defcolumn -> defcolumn option_with_masking_policy" then act_defcolumn args
    else if String.eqb lhs "option_order_noorder" then Ok (PDict [("increment_order", PBool (str_is (hd PNone args) "ORDER"))])
    else if String.eqb lhs "option_with_masking_policy" then
      match rev args with
      | PStr c :: _ :: PStr b :: _ :: PStr a :: _ => Ok (PDict [("with_masking_policy", PStr (a ++ "." ++ b ++ "." ++ c))])
      | _ => Unsupported "masking policy form" end
    else if String.eqb prod "expr -> CREATE TABLESPACE id properties" || String.eqb prod "expr -> CREATE id TABLESPACE id properties"
            || String.eqb prod "expr -> CREATE id id TABLESPACE id properties" then act_tablespace args
    else if String.eqb lhs "clone" then match args with [_; v] => Ok (PDict [("clone", PDict [("from", v)])]) | _ => Unsupported "clone form" end
    else if String.eqb lhs "encrypt" && negb (Nat.eqb (List.length args) 1) then
      match args with
      | PDict d :: _ =>
          match dict_get d "encrypt" with
          | Some (PDict e) =>
              let has w := existsb (fun v => str_is v w) args in
              Ok (PDict (dict_set d "encrypt" (PDict (if has "NO" then dict_set e "salt" (PBool false)
                                                       else if has "USING" then dict_set e "encryption_algorithm" (List.last args PNone)
                                                       else if negb (has "SALT") then dict_set e "integrity_algorithm" (List.last args PNone)
                                                       else e))))
          | _ => Raise KeyError end
      | _ => Unsupported "encrypt form" end
    else if String.eqb prod "defcolumn -> defcolumn encrypt" then act_defcolumn args
    else if String.eqb lhs "encrypt" && Nat.eqb (List.length args) 1 then
      Ok (PDict [("encrypt", PDict [("salt", PBool true); ("encryption_algorithm", PStr "'AES192'"); ("integrity_algorithm", PStr "SHA-1")])])
    else if String.eqb prod "expr -> expr id TERMINATED BY id" || String.eqb prod "expr -> expr id TERMINATED BY STRING" then
      match args with
      | [PDict t; PStr w; _; _; PStr v] => Ok (PDict (dict_set t (lower w ++ "_terminated_by") (PStr (check_spec v))))
      | _ => Unsupported "terminated by form" end
    else if String.eqb prod "expr -> expr MAP KEYS TERMINATED BY id" || String.eqb prod "expr -> expr MAP KEYS TERMINATED BY STRING" then
      match args with
      | PDict t :: _ => match List.last args PNone with PStr v => Ok (PDict (dict_set t "map_keys_terminated_by" (PStr (check_spec v)))) | _ => Unsupported "map keys form" end
      | _ => Unsupported "map keys form" end
    else if String.eqb prod "expr -> expr COLLECTION ITEMS TERMINATED BY id" || String.eqb prod "expr -> expr COLLECTION ITEMS TERMINATED BY STRING" then
      match args with
      | PDict t :: _ => match List.last args PNone with PStr v => Ok (PDict (dict_set t "collection_items_terminated_by" (PStr (check_spec v)))) | _ => Unsupported "collection items form" end
      | _ => Unsupported "collection items form" end
    else if String.eqb prod "expr -> expr id id" || String.eqb prod "expr -> expr id KEY" then
      match args with
      | [PDict t; PStr k; v] => if String.eqb k "IN" then Ok (PDict (dict_set t "tablespace" v)) else Ok (PDict (dict_set t k v))
      | _ => Unsupported "expr id id form" end
    else if String.eqb prod "expr -> expr id LP id RP" then
      match args with [PDict t; _; _; v; _] => Ok (PDict (dict_set t "distkey" v)) | _ => Unsupported "distkey form" end
    else if String.eqb prod "expr -> expr id id LP pid RP" then
      match args with
      | [PDict t; ty; _; _; keys; _] => Ok (PDict (dict_set t "sortkey" (PDict [("type", ty); ("keys", keys)])))
      | _ => Unsupported "sortkey form" end
    else if String.eqb lhs "cluster_by" then Ok (PDict [("cluster_by", List.last (filter not_par args) PNone)])
    else if String.eqb prod "expr -> expr cluster_by" then
      match args with [PDict t; PDict c] => Ok (PDict (dict_update t c)) | _ => Unsupported "expr cluster_by form" end
    else if String.eqb lhs "by_smthg" then Ok (PDict [("by", List.last (filter not_par args) PNone)])
    else if String.eqb prod "expr -> expr ID by_smthg" then
      match args with
      | [PDict t; PStr w; PDict b] =>
          match b with (_, v) :: _ => Ok (PDict (dict_set t (lower w ++ "_by") v)) | [] => Raise IndexError end
      | _ => Unsupported "clustered by form" end
    else if String.eqb prod "expr -> expr ID ON LP pid RP" then
      match args with
      | [PDict t; PStr w; PStr o; _; v; _] => Ok (PDict (dict_set t (lower w ++ "_" ++ lower o) v))
      | _ => Unsupported "id on form" end
    else if String.eqb prod "expr -> expr INTO ID ID" then
      match args with
      | [PDict t; PStr a; v; PStr b] => Ok (PDict (dict_set t (lower a ++ "_" ++ lower b) v))
      | _ => Unsupported "into buckets form" end
    else if String.eqb prod "expr -> expr SKEWED BY LP id RP ON LP pid RP" then
      match filter not_par args with
      | [PDict t; _; _; k; _; on] => Ok (PDict (dict_set t "skewed_by" (PDict [("key", k); ("on", on)])))
      | _ => Unsupported "skewed by form" end
    else if String.eqb lhs "likke" then match args with [PStr w] => Ok (PStr (lower w)) | _ => Unsupported "likke form" end
    else if String.eqb prod "expr -> table_name likke id" || String.eqb prod "expr -> table_name LP likke id RP" then
      match filter not_par args with
      | [PDict t; PStr key; name] => Ok (PDict (dict_set t key (PDict [("schema", PNone); ("table_name", name)])))
      | _ => Unsupported "like form" end
    else if String.eqb prod "expr -> table_name likke id DOT id" || String.eqb prod "expr -> table_name LP likke id DOT id RP" then
      match filter not_par args with
      | [PDict t; PStr key; sch; _; name] => Ok (PDict (dict_set t key (PDict [("schema", sch); ("table_name", name)])))
      | _ => Unsupported "like form" end
    else if String.eqb lhs "c_property" then
      match args with
      | PStr a :: _ => if String.eqb (lower a) "auto" then Ok (PDict [("increment", PBool true)])
                       else Ok (PDict [("property", PDict [(a, List.last args PNone)])])
      | _ => Unsupported "c_property form" end
    else if String.eqb prod "as_virtual -> AS LP id RP" then
      match args with [_; _; v; _] => Ok (PDict [("generated", PDict [("as", v)])]) | _ => Unsupported "as_virtual form" end
    else if String.eqb lhs "tag_equals" then
      match all_strs (filter not_par args) with
      | Some ss => Ok (PList [PStr (join "" ss)])
      | None => Unsupported "tag_equals: non-string item" end
    else if String.eqb lhs "recursive_pid" then
      (fix go (l : list pyval) (acc : string) : res pyval :=
         match l with
         | [] => Ok (PStr acc)
         | PStr x :: r => go r (acc ++ x)
         | PList xs :: r => match all_strs xs with Some ss => go r (acc ++ join "," ss) | None => Unsupported "recursive_pid: list item" end
         | _ => Unsupported "recursive_pid item"
         end) args ""
    else if String.eqb prod "column -> column LP id RP c_type" then
      (* process_type_to_column_data, len(p_list) > 3: the second type is glued to the first ([] arrays) or appended after a blank;
         then the size *)
      match args with
      | [PDict col; _; PStr n; _; PDict ct] =>
          if dict_has col "index_stmt" || dict_has col "identity" then Unsupported "column: index / identity"
          else match dict_get col "type", dict_get ct "type" with
               | Some (PStr t0), Some (PStr t1) =>
                   if contains (upper t1) "IDENTITY" then Unsupported "column: identity after a size"
                   else do z <- size_int n;
                        Ok (PDict (dict_set (dict_set col "type" (PStr (if contains t1 "[]" then t0 ++ t1 else t0 ++ " " ++ t1))) "size" z))
               | _, _ => Unsupported "column: types" end
      | _ => Unsupported "column size c_type form" end
    else Unsupported ("action " ++ prod)
  | _ => Unsupported ("action " ++ prod)
  end.

Definition action (norm : bool) (prod : string) (args : list pyval) : res pyval :=
  match words prod with
  | lhs :: _ :: _ =>
    if String.eqb lhs "id" then
      match args with
      | [PStr s] => Ok (PStr (if norm then normalize_id s else s))
      | _ => Unsupported "p_id"
      end
    else if String.eqb lhs "create_seq" then act_create_seq args
    else if String.eqb lhs "seq_name" then act_seq_name args
    else if String.eqb prod "expr -> seq_name" || startswith prod "expr -> expr INCREMENT"
            || startswith prod "expr -> expr START" || startswith prod "expr -> expr MINVALUE"
            || startswith prod "expr -> expr MAXVALUE" || startswith prod "expr -> expr NO M"
            || startswith prod "expr -> expr CACHE" || String.eqb prod "expr -> expr NOORDER"
            || String.eqb prod "expr -> expr ORDER"
         then act_expression_seq args
    else if String.eqb prod "create_table -> CREATE TABLE" then act_create_table args
    else if String.eqb lhs "t_name" then act_t_name args
    else if String.eqb prod "table_name -> create_table t_name" then act_table_name args
    else if String.eqb prod "c_type -> id" || String.eqb prod "c_type -> id id" then
      match act_c_type args with Unsupported _ => act_c_type_gen args | r => r end
    else if String.eqb lhs "c_type" then act_c_type_gen args
    else if String.eqb lhs "tid" then act_tid args
    else if String.eqb prod "column -> id c_type" || String.eqb prod "column -> column LP id RP"
            || String.eqb prod "column -> column LP id COMMA id RP" then act_column args
    else if String.eqb prod "defcolumn -> column" || String.eqb prod "defcolumn -> defcolumn null"
            || String.eqb prod "defcolumn -> defcolumn default" || String.eqb prod "defcolumn -> defcolumn PRIMARY KEY"
            || String.eqb prod "defcolumn -> defcolumn UNIQUE" || String.eqb prod "defcolumn -> defcolumn ref"
            || String.eqb prod "defcolumn -> defcolumn ref null" then act_defcolumn args
    else if String.eqb lhs "null" then act_null args
    else if String.eqb prod "default -> DEFAULT funct_expr" || String.eqb prod "default -> DEFAULT NULL"
            || String.eqb prod "default -> DEFAULT STRING" then act_default args
    else if String.eqb prod "multi_id -> id" || String.eqb prod "funct_expr -> multi_id" then act_multi_id args
    else if String.eqb prod "STRING -> STRING_BASE" then act_string args
    else if String.eqb prod "pid -> id" then act_pid args
    else if String.eqb prod "ref -> REFERENCES t_name" || String.eqb prod "ref -> ref LP pid RP"
            || String.eqb prod "ref -> ref ON DELETE id" || String.eqb prod "ref -> ref ON UPDATE id" then act_ref args
    else if String.eqb prod "expr -> table_name LP defcolumn" || String.eqb prod "expr -> expr COMMA defcolumn"
            || String.eqb prod "expr -> expr RP" then act_expr_table prod args
    else if String.eqb prod "expr -> CREATE TABLESPACE id" || String.eqb prod "expr -> CREATE id TABLESPACE id"
            || String.eqb prod "expr -> CREATE id id TABLESPACE id" then act_tablespace args
    else if String.eqb prod "database_base -> CREATE DATABASE id" then act_database_base args
    else if String.eqb prod "create_database -> database_base" || String.eqb prod "expr -> create_database"
            || String.eqb prod "expr -> create_schema" then
      match args with [PDict d] => Ok (PDict d) | _ => Unsupported "unit production on a non-dict" end
    else if String.eqb prod "c_schema -> CREATE SCHEMA" then Ok PNone
    else if String.eqb prod "create_schema -> c_schema id" || String.eqb prod "create_schema -> c_schema IF NOT EXISTS id"
         then act_create_schema args
    else action_more norm prod args
  | _ => Unsupported ("action " ++ prod)
  end.

(* ---------- evaluation of a named trace ------------------------------------------------------ *)
Fixpoint eval (norm : bool) (evs : list nevent) (vs : list pyval) : res (option pyval) :=
  match evs with
  | [] => Unsupported "trace ended without accept"
  | NShift v :: r => eval norm r (PStr v :: vs)
  | NReduce p :: r =>
      let n := prod_arity p in
      do v <- action norm p (rev (firstn n vs));
      eval norm r (v :: skipn n vs)
  | NError :: r => eval norm r []
  | NErrorEnd :: _ => Ok None
  | NAccept :: _ => Ok (Some (hd PNone vs))
  end.
