(* Protocol entry point of the extracted model: one command + hex arguments in, one JSON line out. *)
From Coq Require Import String Ascii List ZArith NArith Bool.
From SDP Require Import Base PyStr Regex Json Codec LR RealTables Lexer Actions Parse Engine Seq Output Pre Api Entity Table Alter.
From SDP Require TypeDom TypeObj SchemaX.
Import ListNotations.
Open Scope string_scope.

Definition json_of_tok (t : tok) : json := JArr [JStr (fst t); JStr (snd t)].
Definition json_of_flags (f : flags) : json :=
  JObj [("is_table", JBool (is_table f)); ("sequence", JBool (sequence f)); ("last_token", JStr (last_token f));
        ("columns_def", JBool (columns_def f)); ("after_columns", JBool (after_columns f)); ("check", JBool (check f));
        ("last_par", JStr (last_par f)); ("lp_open", JNum (Z.of_N (lp_open f))); ("is_alter", JBool (is_alter f));
        ("is_like", JBool (is_like f)); ("lt_open", JNum (lt_open f))].

Definition json_of_event (e : event) : json :=
  match e with
  | EShift t v => JArr [JStr "s"; JNum (Zpos t); JStr v]
  | EReduce p => JArr [JStr "r"; JNum (Z.of_N p)]
  | EError t => JArr [JStr "e"; JNum (Zpos t)]
  | EErrorEnd => JArr [JStr "eend"]
  | EAccept => JArr [JStr "acc"]
  end.

(* tokens given as alternating type / value arguments *)
Fixpoint pair_up (l : list string) : list tok :=
  match l with a :: b :: r => (a, b) :: pair_up r | _ => [] end.

Definition dispatch (cmd : string) (args : list string) : string :=
  compact
  match cmd, args with
  | "lex", [s] =>
      json_of_res (fun '(ts, f) => JObj [("tokens", JArr (map json_of_tok ts)); ("flags", json_of_flags f)]) (lex s)
  | "scan", [s] =>
      json_of_res (fun l => JArr (map (fun lx => JArr [JStr (fst lx); JStr (snd lx)]) l)) (scan s)
  | "lr", silent :: toks =>
      json_of_res (fun evs => JArr (map json_of_event evs))
                  (do ids <- toks_to_ids term_id (pair_up toks); lr_trace (String.eqb silent "1") real_tables ids)
  | "parse", [norm; silent; s] =>
      json_of_res (fun o => match o with Some v => JObj [("value", json_of_pyval v)] | None => JObj [("none", JBool true)] end)
                  (parse_statement (String.eqb norm "1") (String.eqb silent "1") s)
  | "format", mode :: group :: rest =>
      match decode_all rest with
      | Some (PList po) => json_of_res json_of_pyval (Output.format mode (String.eqb group "1") po)
      | _ => JObj [("unsupported", JStr "bad parser_output encoding")]
      end
  | "group", rest =>
      match decode_all rest with
      | Some (PList flat) => json_of_res json_of_pyval (Output.group_by_type_result flat)
      | _ => JObj [("unsupported", JStr "bad flat list encoding")]
      end
  | "statements", [data] => json_of_res (fun l => JArr (map json_of_pyval l)) (statements_of data)
  | "preprocess", [data] => json_of_res JStr (pre_process_data data)
  | "run", [norm; silent; mode; group; js; data] =>
      json_of_res json_of_pyval
        (Api.run (String.eqb norm "1") (String.eqb silent "1") mode (String.eqb group "1") (String.eqb js "1") data)
  | "ent_spec", norm :: rest =>
      match ent_of_args rest with
      | None => JObj [("unsupported", JStr "bad entity args")]
      | Some e =>
        JObj [("wf", JBool (Entity.wf e));
              ("lexemes", JArr (map (fun lx => JArr [JStr (fst lx); JStr (snd lx)]) (Entity.lexemes e)));
              ("denote", json_of_pyval (Entity.denote (String.eqb norm "1") e))]
      end
  | "tab_spec", norm :: rest =>
      match table_of_args rest with
      | None => JObj [("unsupported", JStr "bad table args")]
      | Some t =>
        JObj [("wf", JBool (Table.wf (String.eqb norm "1") t));
              ("lexemes", JArr (map (fun lx => JArr [JStr (fst lx); JStr (snd lx)]) (Table.lexemes t)));
              ("denote", json_of_pyval (Table.denote (String.eqb norm "1") t));
              (* what run() reports for the statement: by C01_columns_exact_in_the_reported_table this is [final_table] *)
              ("reported", json_of_res json_of_pyval (Output.format "sql" false [Table.denote (String.eqb norm "1") t]))]
      end
  | "tabc_spec", norm :: rest =>
      match tablec_of_args rest with
      | None => JObj [("unsupported", JStr "bad table-with-clauses args")]
      | Some tc =>
        let nb := String.eqb norm "1" in
        JObj [("wf", JBool (Table.wf_c nb tc));
              ("lexemes", JArr (map (fun lx => JArr [JStr (fst lx); JStr (snd lx)]) (Table.lexemes_c tc)));
              ("denote", json_of_res (fun d => json_of_pyval (PDict d)) (Table.denote_c nb tc));
              ("reported", match Table.denote_c nb tc with
                           | Ok d => json_of_res json_of_pyval (Output.format "sql" false [PDict d])
                           | _ => JObj [("unsupported", JStr "denote")] end)]
      end
  | "tabx_spec", norm :: rest =>
      match tablex_of_args rest with
      | None => JObj [("unsupported", JStr "bad table-with-clauses-after args")]
      | Some tx =>
        let nb := String.eqb norm "1" in
        JObj [("wf", JBool (Table.wf_x nb tx));
              ("lexemes", JArr (map (fun lx => JArr [JStr (fst lx); JStr (snd lx)]) (Table.lexemes_x tx)));
              ("denote", json_of_res (fun d => json_of_pyval (PDict d)) (Table.denote_x nb tx))]
      end
  | "alt_spec", norm :: rest =>
      match alter_of_args rest with
      | None => JObj [("unsupported", JStr "bad alter args")]
      | Some a =>
        JObj [("wf", JBool (Alter.wf (String.eqb norm "1") a));
              ("lexemes", JArr (map (fun lx => JArr [JStr (fst lx); JStr (snd lx)]) (Alter.lexemes a)));
              ("denote", json_of_pyval (Alter.denote (String.eqb norm "1") a))]
      end
  | "td_spec", norm :: rest =>
      match TypeDom.decl_of_args rest with
      | None => JObj [("unsupported", JStr "bad type/domain args")]
      | Some d =>
        JObj [("wf", JBool (TypeDom.wf (String.eqb norm "1") d));
              ("lexemes", JArr (map (fun lx => JArr [JStr (fst lx); JStr (snd lx)]) (TypeDom.lexemes d)));
              ("denote", json_of_pyval (TypeDom.denote (String.eqb norm "1") d))]
      end
  | "to_spec", norm :: rest =>
      match TypeObj.tobj_of_args rest with
      | None => JObj [("unsupported", JStr "bad object type args")]
      | Some o =>
        JObj [("wf", JBool (TypeObj.wf (String.eqb norm "1") o));
              ("lexemes", JArr (map (fun lx => JArr [JStr (fst lx); JStr (snd lx)]) (TypeObj.lexemes o)));
              ("denote", json_of_pyval (TypeObj.denote (String.eqb norm "1") o))]
      end
  | "sx_spec", norm :: rest =>
      match SchemaX.schx_of_args rest with
      | None => JObj [("unsupported", JStr "bad schema args")]
      | Some x =>
        JObj [("wf", JBool (SchemaX.wf (String.eqb norm "1") x));
              ("lexemes", JArr (map (fun lx => JArr [JStr (fst lx); JStr (snd lx)]) (SchemaX.lexemes x)));
              ("denote", json_of_pyval (SchemaX.denote (String.eqb norm "1") x))]
      end
  | "seq_spec", norm :: rest =>
      match seq_of_args rest with
      | None => JObj [("unsupported", JStr "bad seq args")]
      | Some a =>
        JObj [("wf", JBool (Seq.wf a));
              ("lexemes", JArr (map (fun lx => JArr [JStr (fst lx); JStr (snd lx)]) (Seq.lexemes a)));
              ("denote", json_of_pyval (Seq.denote (String.eqb norm "1") a))]
      end
  | _, _ => JObj [("unsupported", JStr ("command " ++ cmd))]
  end.
