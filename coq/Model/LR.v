(* The PLY LR driver (yacc.LRParser.parseopt_notrack) as a total function over explicit tables.
   Mirrors: defaulted states; the p_error hook (raises DDLParserError iff silent = false);
   PLY's error recovery in the form it takes for a grammar without `error` productions:
   pop the whole stack, drop the offending token, continue from state 0; at $end return no value.
   No proofs here. *)
From Coq Require Import String List ZArith NArith PArith Bool FMapPositive.
From SDP Require Import Base PyStr.
Import ListNotations.
Open Scope N_scope.

Module PM := PositiveMap.

Record tables := mkTables {
  t_action    : N -> positive -> option Z;   (* >0 shift, <0 reduce, 0 accept *)
  t_goto      : N -> positive -> option Z;
  t_defaulted : N -> option Z;
  t_prod      : N -> option (N * nat);       (* production number -> (lhs nonterminal id, |rhs|) *)
  t_end       : positive                     (* id of $end *)
}.

Inductive event :=
| EShift (tok : positive) (val : string)
| EReduce (p : N)
| EError (tok : positive)        (* syntax error at a token that is then discarded; stack reset *)
| EErrorEnd                      (* syntax error at $end: parse returns None *)
| EAccept.

Definition token := (positive * string)%type.

(* one driver decision in state [s] with look-ahead [t] *)
Definition decide (T : tables) (s : N) (t : positive) : option Z :=
  match t_defaulted T s with
  | Some r => Some r
  | None => t_action T s t
  end.

Definition top (st : list N) : N := match st with s :: _ => s | [] => 0 end.

(* [feed fuel T st t acc]: in stack [st] with look-ahead [t], reduce until the token can be shifted,
   the input is accepted, or no action exists.  fuel bounds the reductions done for ONE token. *)
Inductive fed :=
| FShift (st : list N) (acc : list event)
| FAccept (acc : list event)
| FErr (acc : list event).

Fixpoint feed (fuel : nat) (T : tables) (st : list N) (t : positive) (acc : list event) : res fed :=
  match fuel with
  | O => OutOfFuel
  | S f =>
    match decide T (top st) t with
    | Some a =>
      if (0 <? a)%Z then Ok (FShift (Z.to_N a :: st) acc)
      else if (a <? 0)%Z then
        let p := Z.to_N (- a) in
        match t_prod T p with
        | None => Unsupported "LR: unknown production"
        | Some (lhs, n) =>
          let st' := skipn n st in
          match lhs with
          | N0 => Unsupported "LR: reduce by S'"
          | Npos l =>
            match t_goto T (top st') l with
            | Some g => feed f T (Z.to_N g :: st') t (EReduce p :: acc)
            | None => Unsupported "LR: missing goto"
            end
          end
        end
      else Ok (FAccept acc)
    | None => Ok (FErr acc)
    end
  end.

(* reductions allowed between two shifts *)
Definition feed_fuel : nat := 400.
(* never let simpl/cbn unroll the fuel; vm_compute ignores this *)
Global Opaque feed_fuel.

(* [run silent T stack toks acc]: toks ends with the $end token *)
Fixpoint run (silent : bool) (T : tables) (st : list N) (toks : list token) (acc : list event)
  : res (list event) :=
  match toks with
  | [] => Unsupported "LR: ran past $end"
  | (t, v) :: rest =>
    match feed feed_fuel T st t acc with
    | Ok (FShift st' acc') => run silent T st' rest (EShift t v :: acc')
    | Ok (FAccept acc') => Ok (rev (EAccept :: acc'))
    | Ok (FErr acc') =>
        if silent then
          if Pos.eqb t (t_end T) then Ok (rev (EErrorEnd :: acc'))
          else run silent T [0] rest (EError t :: acc')
        else Raise DDLParserError
    | Raise e => Raise e
    | Unsupported w => Unsupported w
    | OutOfFuel => OutOfFuel
    end
  end.

Definition lr_trace (silent : bool) (T : tables) (toks : list token) : res (list event) :=
  run silent T [0] (toks ++ [(t_end T, EmptyString)])%list [].

(* ---------- table construction from generated rows ------------------------------------------ *)
Definition row_map (r : list (positive * Z)) : PM.t Z :=
  fold_left (fun m kv => PM.add (fst kv) (snd kv) m) r (PM.empty Z).
Definition build (rows : list (N * list (positive * Z))) : PM.t (PM.t Z) :=
  fold_left (fun m r => PM.add (N.succ_pos (fst r)) (row_map (snd r)) m) rows (PM.empty (PM.t Z)).
Definition lookup (tbl : PM.t (PM.t Z)) (s : N) (t : positive) : option Z :=
  match PM.find (N.succ_pos s) tbl with Some r => PM.find t r | None => None end.
Definition build1 {A} (rows : list (N * A)) : PM.t A :=
  fold_left (fun m r => PM.add (N.succ_pos (fst r)) (snd r) m) rows (PM.empty A).
Definition lookup1 {A} (tbl : PM.t A) (s : N) : option A := PM.find (N.succ_pos s) tbl.

Fixpoint number_from {A} (n : N) (l : list A) : list (N * A) :=
  match l with [] => [] | x :: r => (n, x) :: number_from (n + 1) r end.
