(* parser.py: pre_process_data, the line splitting of parse_data and the per-line state machine
   (process_line and everything it calls).  The regular expressions are the ASTs generated from the
   pattern texts of /repo (Gen/RegexAst.v); the re.sub / re.split calls are replayed in the order
   they were recorded from a live run.  Input = the escaped text (self.data decoded).  No proofs here. *)
From Coq Require Import String Ascii List ZArith NArith Bool.
From SDP Require Import Base PyStr Regex Actions.
From SDP.Gen Require RegexAst.
Import ListNotations.
Open Scope string_scope.

Definition BS : string := String (ascii_of_nat 92) "".     (* one backslash *)
Definition OP_COM := "/*".
Definition CL_COM := "*/".
Definition IN_COM := "--".
Definition MYSQL_COM := "#".

(* ---------- pre_process_data -------------------------------------------------------------------- *)
Definition apply_subs (calls : list (string * string * string * re)) (data : string) : res string :=
  fold_left (fun acc c =>
               let '(fn, _, repl, r) := c in
               if String.eqb fn "sub" then do d <- acc; re_sub r repl d else acc) calls (Ok data).

Definition pre_process_data (data : string) : res string :=
  if contains data "input.regex" then Unsupported "input.regex (hive regex serde) is not modelled"
  else
    do d1 <- apply_subs RegexAst.re_calls data;
    let d2 := if Nat.odd (count d1 "'") then replace d1 (BS ++ "'") "pars_m_single" else d1 in
    let d3 := replace d2 (BS ++ "x") (BS ++ "0") in
    let d4 := replace (replace d3 (BS ++ "u2018") "'") (BS ++ "u2019") "'" in
    let d5 := replace d4 ("'" ++ BS ++ "t'") "'pars_m_t'" in
    Ok (replace d5 (BS ++ "t") " ").

Definition split_re : option re :=
  match List.find (fun c => String.eqb (fst (fst (fst c))) "split") RegexAst.re_calls with
  | Some c => Some (snd c)
  | None => None
  end.

Definition split_lines (data : string) : res (list string) :=
  match split_re with
  | None => Unsupported "no re.split call recorded"
  | Some r =>
    do pieces <- re_split r (replace data (BS ++ "t") "");
    Ok (filter (fun l => negb (String.eqb l (BS ++ "n"))) pieces)
  end.

(* ---------- the line machine ----------------------------------------------------------------------- *)
(* the state a line can READ.  self.tables and self.comments are only ever appended to by the code, never
   read before the end of parse_data, so they are outputs of a step, not state. *)
Record lm := mkLM {
  statement : option string;
  set_line : option string;
  set_was_in_line : bool;
  multi_line_comment : bool;
  block_comments : list string
}.
(* emitted by one line: entries appended to self.tables, texts appended to self.comments *)
Definition emitted := (list pyval * list string)%type.

(* what parse_data establishes before the loop (with the fix of D1: block_comments and statement too) *)
Definition lm0 : lm := mkLM None None false false [].

Definition nth_s (l : list string) (n : nat) : option string := nth_error l n.
(* python negative index *)
Definition nth_neg (l : list string) (k : nat) : option string :=
  if (k <=? List.length l)%nat then nth_error l (List.length l - k) else None.

Section Machine.
  (* one statement through lexer + grammar + actions: yacc.parse after set_default_flags_in_lexer *)
  Variable parse_stmt : string -> res (option pyval).

  (* process_set: appends {"name","value"} *)
  Definition process_set (set_line : string) : res pyval :=
    let w := words set_line in
    match nth_neg w 2, nth_neg w 1 with
    | Some w2, Some w1 =>
      do name <- (if String.eqb w2 "=" then match nth_s w 1 with Some x => Ok x | None => Raise IndexError end else Ok w2);
      Ok (PDict [("name", PStr name); ("value", PStr (replace w1 ";" ""))])
    | _, _ => Raise IndexError
    end.

  (* process_in_comment (after fix 0398ce9): the line is scanned; a quote character opens a literal that the same character
     closes; the first "--" outside a literal starts the comment, whose text is the whole rest of the line *)
  Fixpoint comment_start (quote : option ascii) (s : string) : option nat :=
    match s with
    | EmptyString => None
    | String c r =>
      match quote with
      | Some qc => option_map S (comment_start (if Ascii.eqb c qc then None else quote) r)
      | None => if Ascii.eqb c "'" || Ascii.eqb c """" then option_map S (comment_start (Some c) r)
                else if String.prefix IN_COM s then Some O
                else option_map S (comment_start None r)
      end
    end.
  Definition process_in_comment (line : string) : res (string * list string) :=
    match comment_start None line with
    | Some i => Ok (take i line, [drop (i + 2) line])
    | None => Ok (line, [])
    end.

  (* pre_process_line: the code line, the new comment-related state, the comment texts appended *)
  Definition pre_process_line (m : lm) (line0 : string) : res (string * bool * list string * list string) :=
    do line <- re_sub RegexAst.re_equal_without_space " = " line0;
    do '(code_line, mlc1, bcs, cms) <-
       (if multi_line_comment m then
          Ok ("", (if contains line CL_COM then false else true), block_comments m, [line])
        else if negb (startswith (strip line) MYSQL_COM || startswith (strip line) IN_COM) then
          (* process_inline_comments *)
          do '(code1, cms1) <-
             (if contains line IN_COM then process_in_comment line
              else if negb (contains line CL_COM) && negb (contains line OP_COM) then Ok (line, [])
              else Ok ("", []));
          do '(code2, comment2, bcs2) <-
             (if contains line OP_COM then
                match split line OP_COM with
                | a :: b :: _ => Ok (code1 ++ a, Some b, (block_comments m ++ [OP_COM])%list)
                | _ => Raise IndexError
                end
              else Ok (code1, None, block_comments m));
          do '(code3, comment3, bcs3) <-
             (if contains code2 CL_COM && (match bcs2 with [] => false | _ => true end) then
                match split line CL_COM with
                | a :: b :: _ => Ok (code2 ++ b, Some a, removelast bcs2)
                | _ => Raise IndexError
                end
              else Ok (code2, comment2, bcs2));
          let cms3 := match comment3 with
                      | Some c => if String.eqb c "" then cms1 else (cms1 ++ [c])%list
                      | None => cms1 end in
          Ok (code3, false, bcs3, cms3)
        else Ok ("", false, block_comments m, []));
    let mlc2 := if startswith line OP_COM && negb (contains line CL_COM) then true
                else if startswith line CL_COM then false else mlc1 in
    Ok (code_line, mlc2, bcs, cms).

  Definition new_statement_tokens : list string := ["ALTER "; "CREATE "; "DROP "; "SET "].
  Definition nonempty (o : option string) : bool := match o with Some s => negb (String.eqb s "") | None => false end.

  (* process_line; [not_last] is the python argument named last_line (true for every line but the last) *)
  Definition process_line (m0 : lm) (line0 : string) (not_last : bool) : res (lm * emitted) :=
    do '(code, mlc, bcs, cms) <- pre_process_line m0 line0;
    let line := replace (replace (strip code) (String (ascii_of_nat 10) "") "") (String (ascii_of_nat 9) "") "" in
    do skip <- re_match_b RegexAst.re_skip_regex (upper line);
    (* parse_set_statement: new set_line, set_was_in_line and the SET entry appended, if any *)
    do is_set <- re_match_b RegexAst.re_set_statement (upper line);
    do '(sl2, swl2, set_entries) <-
       (if is_set then
          match set_line m0 with
          | None => Ok (Some line, true, [])
          | Some sl => if String.eqb sl "" then Ok (Some line, true, [])
                       else do e <- process_set sl; Ok (Some line, true, [e])
          end
        else
          match set_line m0 with
          | Some sl =>
            if negb (String.eqb sl "") && ((Nat.eqb (List.length (words sl)) 3) || set_was_in_line m0) then
              do e <- process_set sl; Ok (None, false, [e])
            else Ok (set_line m0, set_was_in_line m0, [])
          | None => Ok (set_line m0, set_was_in_line m0, [])
          end);
    (* check_new_statement_start *)
    let new_statement :=
        match statement m0 with
        | Some st => negb (String.eqb st "") && Nat.eqb (count st "(") (count st ")")
                     && existsb (fun k => startswith (upper line) k) new_statement_tokens
        | None => false
        end in
    let final_line := endswith line ";" && negb swl2 in
    (* add_line_to_statement *)
    let st1 := if negb (String.eqb line "") && negb skip && negb swl2 && negb new_statement
               then match statement m0 with None => Some line | Some st => Some (st ++ " " ++ line) end
               else statement m0 in
    let go (st2 : option string) : res (lm * emitted) :=
        (* set_default_flags_in_lexer(); process_statement() *)
        do tbl <- (if negb (nonempty sl2) && nonempty st2 then
                     match st2 with
                     | Some s => do r <- parse_stmt s;
                                 Ok (match r with Some v => if match v with PDict [] => false | _ => true end then [v] else [] | None => [] end)
                     | None => Ok []
                     end
                   else Ok []);
        Ok (mkLM (if new_statement then Some line else None) sl2 swl2 mlc bcs, ((set_entries ++ tbl)%list, cms)) in
    if (final_line || new_statement) && nonempty st1 then
      go (match st1 with Some s => Some (drop_last s) | None => None end)
    else if not_last && negb skip then
      Ok (mkLM st1 sl2 swl2 mlc bcs, (set_entries, cms))
    else go st1.

  (* all lines; [more] = other lines follow this list *)
  Fixpoint run_lines (m : lm) (lines : list string) (more : bool) : res (lm * emitted) :=
    match lines with
    | [] => Ok (m, ([], []))
    | l :: r =>
      do '(m', (t1, c1)) <- process_line m l (match r with [] => more | _ => true end);
      do '(m'', (t2, c2)) <- run_lines m' r more;
      Ok (m'', ((t1 ++ t2)%list, (c1 ++ c2)%list))
    end.

  Definition finish (e : emitted) : list pyval :=
    (fst e ++ match snd e with [] => [] | cs => [PDict [("comments", PList (map PStr cs))]] end)%list.

  (* parse_data on the escaped text *)
  Definition parse_data (data : string) : res (list pyval) :=
    do d <- pre_process_data data;
    do lines <- split_lines d;
    do '(_, e) <- run_lines lm0 lines false;
    Ok (finish e).
End Machine.
