#!/venv/bin/python
"""Translator: /repo's live objects  ->  coq/Gen/*.v   (fail-closed).

driver mode (default):  translate.py --repo /repo --out /verif/coq/Gen
    1. copies <repo>/simple_ddl_parser twice into scratch dirs, removes parsetab.py there,
    2. runs two workers (PYTHONHASHSEED 0 and 1) that import the copy, build a DDLParser (which
       makes PLY generate FRESH tables) and dump everything as canonical JSON,
    3. requires both dumps to be equal (hash-seed independence of tokens, grammar, tables),
    4. reads <repo>/simple_ddl_parser/parsetab.py with ast.literal_eval (the package is NOT
       executed for this),
    5. writes Gen/*.v (only when the bytes change).
worker mode:  translate.py --worker <scratchroot>    (prints JSON on stdout)
"""
import ast
import hashlib
import json
import os
import shutil
import subprocess
import sys
import tempfile

HERE = os.path.dirname(os.path.abspath(__file__))


class TranslateError(Exception):
    pass


# ----------------------------------------------------------------------------------------------
# worker
# ----------------------------------------------------------------------------------------------
def to_pyval(v):
    """python value -> tagged json (same tagging as harness/canon.py)"""
    if v is None:
        return {"t": "none"}
    if v is True or v is False:
        return {"t": "bool", "v": bool(v)}
    if isinstance(v, int):
        return {"t": "int", "v": str(v)}
    if isinstance(v, str):
        return {"t": "str", "v": v}
    if isinstance(v, list):
        return {"t": "list", "v": [to_pyval(x) for x in v]}
    if isinstance(v, tuple):
        return {"t": "tuple", "v": [to_pyval(x) for x in v]}
    if isinstance(v, dict):
        for k in v:
            if not isinstance(k, str):
                raise TranslateError("non-string dict key %r" % (k,))
        return {"t": "dict", "v": [[k, to_pyval(x)] for k, x in v.items()]}
    raise TranslateError("value outside the pyval universe: %r" % (v,))


def worker(root):
    sys.path.insert(0, root)
    import dataclasses
    import logging

    logging.disable(logging.CRITICAL)
    import simple_ddl_parser

    if not os.path.abspath(simple_ddl_parser.__file__).startswith(os.path.abspath(root)):
        raise TranslateError("imported the wrong copy: %s" % simple_ddl_parser.__file__)
    from simple_ddl_parser import DDLParser, tokens as tok
    from simple_ddl_parser.output import dialects as od
    from simple_ddl_parser.output.base_data import BaseData
    from simple_ddl_parser.output.table_data import TableData
    from simple_ddl_parser import parser as parser_mod
    from ply import yacc as plyyacc

    out = {}
    # ---- keyword tables ----------------------------------------------------------------------
    tables = {}
    for name in [
        "definition_statements",
        "common_statements",
        "columns_definition",
        "first_liners",
        "alter_tokens",
        "after_columns_tokens",
        "sequence_reserved",
        "symbol_tokens",
        "symbol_tokens_no_check",
    ]:
        d = getattr(tok, name)
        if not isinstance(d, dict) or not all(
            isinstance(k, str) and isinstance(v, str) for k, v in d.items()
        ):
            raise TranslateError("token table %s is not a str->str dict" % name)
        tables[name] = sorted(d.items())
    out["tables"] = tables
    out["tokens"] = sorted(tok.tokens)
    if len(set(tok.tokens)) != len(tok.tokens):
        raise TranslateError("duplicate token")
    out["t_ignore"] = DDLParser.t_ignore

    # ---- the parser object (fresh tables: parsetab.py was removed from this copy) -------------
    p = DDLParser("")
    lexer = p.lexer
    st = lexer.lexstatere
    if list(st.keys()) != ["INITIAL"] or len(st["INITIAL"]) != 1:
        raise TranslateError("unexpected lexer states / master regex split")
    master, funcs = st["INITIAL"][0][0], st["INITIAL"][0][1]
    rules = []
    for f in funcs:
        if f is not None and f[0] is not None:
            rules.append([f[0].__name__, f[0].__doc__, f[1]])
    out["lex_rules"] = rules
    out["lex_reflags"] = int(lexer.lexreflags)
    out["lex_literals"] = lexer.lexliterals
    out["lex_ignore"] = lexer.lexstateignore.get("INITIAL", "")
    out["lex_string_rules"] = sorted(
        k for k in dir(DDLParser) if k.startswith("t_") and isinstance(getattr(DDLParser, k), str) and k != "t_ignore"
    )

    y = p.yacc
    prods = []
    for i, pr in enumerate(y.productions):
        if pr.number != i:
            raise TranslateError("production numbering")
        rhs = pr.str.split(" -> ", 1)[1].split() if " -> " in pr.str else []
        if rhs == ["<empty>"]:
            rhs = []
        if len(rhs) != pr.len:
            raise TranslateError("rhs length mismatch in %s" % pr.str)
        prods.append([pr.name, rhs, pr.func or ""])
    out["productions"] = prods
    action = {}
    for s, row in y.action.items():
        action[str(s)] = sorted([t, int(a)] for t, a in row.items())
    goto = {}
    for s, row in y.goto.items():
        goto[str(s)] = sorted([n, int(a)] for n, a in row.items())
    out["action"] = action
    out["goto"] = goto
    out["defaulted"] = sorted([int(s), int(r)] for s, r in y.defaulted_states.items())
    out["nstates"] = max(int(s) for s in action) + 1

    # the signature PLY computes for the grammar of this tree, in a form that does not depend on
    # the (hash-seed dependent) order of the token tuple: (prefix parts, docs)
    pdict = dict((k, getattr(p, k)) for k in dir(p))
    pinfo = plyyacc.ParserReflect(pdict, log=plyyacc.NullLogger())
    pinfo.get_all()
    sig_parts = []
    if pinfo.start:
        sig_parts.append(pinfo.start)
    if pinfo.prec:
        sig_parts.append("".join(["".join(x) for x in pinfo.prec]))
    out["sig_head"] = "".join(sig_parts)
    out["sig_tokens"] = sorted(pinfo.tokens)
    out["sig_docs"] = "".join(f[3] for f in pinfo.pfuncs if f[3])
    out["tabversion"] = plyyacc.__tabversion__

    # ---- lexer attributes really reset by set_default_flags_in_lexer --------------------------
    class Rec:
        def __init__(self):
            object.__setattr__(self, "log", [])

        def __setattr__(self, k, v):
            self.log.append([k, to_pyval(v)])

    class Stub:
        pass

    stub = Stub()
    stub.lexer = Rec()
    DDLParser.set_default_flags_in_lexer(stub)
    out["reset_attrs"] = stub.lexer.log

    # ---- output dataclass fields per mode ----------------------------------------------------
    modes = list(od.dialect_by_name.keys())
    out["modes"] = sorted(modes)
    fields = {}
    for m in modes:
        cls = TableData.get_dialect_class({"output_mode": m})
        fl = []
        for name, f in cls.__dataclass_fields__.items():
            if f.default is not dataclasses.MISSING:
                default = f.default
            elif f.default_factory is not dataclasses.MISSING:
                default = f.default_factory()
            else:
                raise TranslateError("field without default: %s.%s" % (m, name))
            md = dict(f.metadata)
            for k in md:
                if k not in ("exclude_always", "exclude_if_not_provided", "exclude_if_empty", "output_modes", "alias"):
                    raise TranslateError("unknown metadata key %s on %s.%s" % (k, m, name))
            fl.append(
                {
                    "name": name,
                    "default": to_pyval(default),
                    "exclude_always": md.get("exclude_always") is True,
                    "exclude_if_not_provided": md.get("exclude_if_not_provided") is True,
                    "exclude_if_empty": md.get("exclude_if_empty") is True,
                    "has_modes": isinstance(md.get("output_modes"), list),
                    "output_modes": list(md.get("output_modes") or []),
                    "alias": md.get("alias") or "",
                }
            )
        hooks = {
            "post_process": cls.post_process.__qualname__,
            "to_dict": cls.to_dict.__qualname__,
            "prepare_ref_statement": cls.prepare_ref_statement.__qualname__,
            "post_init": cls.__post_init__.__qualname__,
        }
        fields[m] = {"fields": fl, "hooks": hooks}
    out["fields"] = fields

    # ---- regex texts / string constants of the pre-processor ---------------------------------
    out["regex"] = {
        "equal_without_space": p.equal_without_space.pattern,
        "in_comment": p.in_comment.pattern,
        "set_statement": p.set_statement.pattern,
        "skip_regex": p.skip_regex.pattern,
        "OP_COM": parser_mod.OP_COM,
        "CL_COM": parser_mod.CL_COM,
        "IN_COM": parser_mod.IN_COM,
        "MYSQL_COM": parser_mod.MYSQL_COM,
    }
    src = open(os.path.join(root, "simple_ddl_parser", "parser.py")).read()
    tree = ast.parse(src)
    consts = {}
    for node in ast.walk(tree):
        if isinstance(node, ast.ClassDef) and node.name == "Parser":
            for fn in node.body:
                if isinstance(fn, ast.FunctionDef) and fn.name in (
                    "pre_process_data",
                    "parse_data",
                    "check_new_statement_start",
                    "process_line",
                ):
                    body = fn.body
                    # skip the docstring
                    cs = []
                    for sub in body:
                        for n in ast.walk(sub):
                            if isinstance(n, ast.Constant) and isinstance(n.value, str):
                                cs.append(n.value)
                    if fn.body and isinstance(fn.body[0], ast.Expr) and isinstance(getattr(fn.body[0], "value", None), ast.Constant):
                        cs = cs[1:]
                    consts[fn.name] = cs
    out["parser_consts"] = consts
    # attributes (re)initialised by parse_data before its loop over the lines, with their values
    resets = []
    for node in ast.walk(tree):
        if isinstance(node, ast.ClassDef) and node.name == "Parser":
            for fn in node.body:
                if isinstance(fn, ast.FunctionDef) and fn.name == "parse_data":
                    for st in fn.body:
                        if isinstance(st, (ast.For, ast.While)):
                            break
                        tgt, val = None, None
                        if isinstance(st, ast.Assign) and len(st.targets) == 1:
                            tgt, val = st.targets[0], st.value
                        elif isinstance(st, ast.AnnAssign):
                            tgt, val = st.target, st.value
                        if (isinstance(tgt, ast.Attribute) and isinstance(tgt.value, ast.Name) and tgt.value.id == "self"
                                and val is not None):
                            try:
                                resets.append([tgt.attr, to_pyval(ast.literal_eval(val))])
                            except (ValueError, TranslateError):
                                resets.append([tgt.attr, {"t": "str", "v": "<non-literal>"}])
    out["parse_data_resets"] = resets
    # does parse_statement go through the object's OWN parser and lexer (not PLY's module globals)?
    own_parser, own_lexer = False, False
    for node in ast.walk(tree):
        if isinstance(node, ast.ClassDef) and node.name == "Parser":
            for fn in node.body:
                if isinstance(fn, ast.FunctionDef) and fn.name == "parse_statement":
                    for c in ast.walk(fn):
                        if isinstance(c, ast.Call) and isinstance(c.func, ast.Attribute) and c.func.attr == "parse":
                            v = c.func.value
                            own_parser = (isinstance(v, ast.Attribute) and isinstance(v.value, ast.Name)
                                          and v.value.id == "self" and v.attr == "yacc")
                            for k in c.keywords:
                                if k.arg == "lexer" and isinstance(k.value, ast.Attribute) and isinstance(k.value.value, ast.Name) \
                                        and k.value.value.id == "self" and k.value.attr == "lexer":
                                    own_lexer = True
    out["own_parser"] = own_parser
    out["own_lexer"] = own_lexer

    # ---- the regexes really used by the pre-processor, recorded from a live run ---------------
    import re as real_re

    calls = []

    class ReProxy:
        def __getattr__(self, k):
            return getattr(real_re, k)

        def sub(self, pattern, repl, string, *a, **kw):
            calls.append(["sub", pattern, repl])
            return real_re.sub(pattern, repl, string, *a, **kw)

        def split(self, pattern, string, *a, **kw):
            calls.append(["split", pattern, ""])
            return real_re.split(pattern, string, *a, **kw)

    saved = parser_mod.re
    parser_mod.re = ReProxy()
    try:
        DDLParser("create table a (b int, c int);\ncreate table d (e int);").run()
    finally:
        parser_mod.re = saved
    for c in calls:
        if not isinstance(c[1], str) or not isinstance(c[2], str):
            raise TranslateError("re call with non-literal arguments")
    out["re_calls"] = calls

    def tree(pat, flags):
        import re._parser as sp
        import re._constants as sc

        def conv_items(items):
            return [conv(op, av) for op, av in items]

        def conv(op, av):
            n = str(op)
            if op is sc.LITERAL:
                return ["lit", av]
            if op is sc.NOT_LITERAL:
                return ["notlit", av]
            if op is sc.ANY:
                return ["any"]
            if op is sc.IN:
                neg = False
                its = []
                for o2, a2 in av:
                    if o2 is sc.NEGATE:
                        neg = True
                    elif o2 is sc.LITERAL:
                        its.append(["c", a2])
                    elif o2 is sc.RANGE:
                        its.append(["r", a2[0], a2[1]])
                    elif o2 is sc.CATEGORY:
                        if a2 is sc.CATEGORY_WORD:
                            its += [["r", 97, 122], ["r", 65, 90], ["r", 48, 57], ["c", 95]]
                        elif a2 is sc.CATEGORY_DIGIT:
                            its += [["r", 48, 57]]
                        elif a2 is sc.CATEGORY_SPACE:
                            its += [["c", 32], ["r", 9, 13]]
                        else:
                            raise TranslateError("regex category %s" % a2)
                    else:
                        raise TranslateError("regex set item %s" % o2)
                return ["set", neg, its]
            if op is sc.BRANCH:
                return ["alt", [["seq", conv_items(x)] for x in av[1]]]
            if op is sc.SUBPATTERN:
                group, add_flags, del_flags, sub = av
                if del_flags or (add_flags & ~real_re.I):
                    raise TranslateError("regex group flags")
                inner = ["seq", conv_items(sub)]
                return ["icase", inner] if add_flags & real_re.I else inner
            if op in (sc.MAX_REPEAT, sc.MIN_REPEAT):
                mn, mx, sub = av
                return ["rep", mn, None if mx == sc.MAXREPEAT else mx, op is sc.MAX_REPEAT, ["seq", conv_items(sub)]]
            if op in (sc.ASSERT, sc.ASSERT_NOT):
                direction, sub = av
                if direction != 1:
                    raise TranslateError("look-behind")
                return ["ahead", op is sc.ASSERT_NOT, ["seq", conv_items(sub)]]
            if op is sc.AT:
                if av is sc.AT_BEGINNING:
                    return ["begin"]
                if av is sc.AT_END:
                    return ["end"]
                if av is sc.AT_BOUNDARY:
                    return ["boundary"]
                raise TranslateError("regex anchor %s" % av)
            raise TranslateError("regex op %s" % n)

        parsed = sp.parse(pat, flags)
        if parsed.state.flags & ~(real_re.VERBOSE | real_re.UNICODE) :
            raise TranslateError("regex global flags %s" % parsed.state.flags)
        return ["seq", conv_items(parsed)]

    trees = {}
    for name, doc, _ in rules:
        trees["lex:" + name] = tree(doc, real_re.VERBOSE)
    for k in ("equal_without_space", "in_comment", "set_statement", "skip_regex"):
        trees["parser:" + k] = tree(out["regex"][k], 0)
    for i, c in enumerate(calls):
        trees["call:%d" % i] = tree(c[1], 0)
    out["re_trees"] = trees
    json.dump(out, sys.stdout, sort_keys=True)


# ----------------------------------------------------------------------------------------------
# Coq emission
# ----------------------------------------------------------------------------------------------
def cstr(s):
    if all(32 <= ord(c) <= 126 for c in s):
        return '"' + s.replace('"', '""') + '"'
    bs = s.encode("utf-8")
    return "(str_of_codes [" + ";".join(str(b) for b in bs) + "])"


def clist(items):
    return "[" + "; ".join(items) + "]"


def cpyval(v):
    t = v["t"]
    if t == "none":
        return "PNone"
    if t == "bool":
        return "(PBool %s)" % ("true" if v["v"] else "false")
    if t == "int":
        z = int(v["v"])
        return "(PInt (%d)%%Z)" % z
    if t == "str":
        return "(PStr %s)" % cstr(v["v"])
    if t == "list":
        return "(PList %s)" % clist([cpyval(x) for x in v["v"]])
    if t == "tuple":
        return "(PTuple %s)" % clist([cpyval(x) for x in v["v"]])
    if t == "dict":
        return "(PDict %s)" % clist(["(%s, %s)" % (cstr(k), cpyval(x)) for k, x in v["v"]])
    raise TranslateError("bad pyval tag")


HEADER = "(* GENERATED by /verif/gen/translate.py from /repo — do not edit. *)\n"


def write_if_changed(path, text):
    old = None
    if os.path.exists(path):
        with open(path) as f:
            old = f.read()
    if old != text:
        with open(path + ".tmp", "w") as f:
            f.write(text)
        os.replace(path + ".tmp", path)
        return True
    return False


def read_parsetab(path):
    """literal read of parsetab.py; never imports it"""
    if not os.path.exists(path):
        return None
    tree = ast.parse(open(path).read())
    vals = {}
    for node in tree.body:
        if isinstance(node, ast.Assign) and len(node.targets) == 1 and isinstance(node.targets[0], ast.Name):
            name = node.targets[0].id
            if name in ("_tabversion", "_lr_method", "_lr_signature", "_lr_action_items", "_lr_goto_items", "_lr_productions"):
                vals[name] = ast.literal_eval(node.value)
    for k in ("_tabversion", "_lr_method", "_lr_signature", "_lr_action_items", "_lr_goto_items", "_lr_productions"):
        if k not in vals:
            raise TranslateError("parsetab.py lacks %s" % k)
    return vals


def sig_matches(pt_sig, d):
    """does the cached signature describe the current grammar (for SOME order of the token tuple)?"""
    docs = d["sig_docs"]
    head = d["sig_head"]
    if not pt_sig.endswith(docs):
        return False
    pre = pt_sig[: len(pt_sig) - len(docs)]
    if not pre.startswith(head):
        return False
    toks = pre[len(head):].split(" ")
    return sorted(toks) == d["sig_tokens"]


def emit(d, pt, outdir):
    os.makedirs(outdir, exist_ok=True)
    changed = []
    # symbol numbering (deterministic): terminals sorted, '$end' and 'error' included
    terms = set(["$end", "error"]) | set(d["tokens"])
    for s, row in d["action"].items():
        for t, a in row:
            terms.add(t)
    nonterms = set()
    for name, rhs, func in d["productions"]:
        nonterms.add(name)
    for s, row in d["goto"].items():
        for n, a in row:
            nonterms.add(n)
    for name, rhs, func in d["productions"]:
        for x in rhs:
            if x not in terms and x not in nonterms:
                raise TranslateError("symbol %s neither terminal nor nonterminal" % x)
    if terms & nonterms:
        raise TranslateError("symbol both terminal and nonterminal")
    terms = sorted(terms)
    nonterms = sorted(nonterms)
    tid = {t: i + 1 for i, t in enumerate(terms)}
    nid = {n: i + 1 for i, n in enumerate(nonterms)}

    # ---- Tokens.v ----------------------------------------------------------------------------
    o = [HEADER, "From Coq Require Import String List ZArith.\nFrom SDP Require Import Base.\nImport ListNotations.\nOpen Scope string_scope.\n"]
    o.append("Definition tokens : list string := %s.\n" % clist([cstr(t) for t in d["tokens"]]))
    for name, items in sorted(d["tables"].items()):
        o.append("Definition %s : list (string * string) :=\n  %s.\n" % (name, clist(["(%s, %s)" % (cstr(k), cstr(v)) for k, v in items])))
    o.append("Definition t_ignore : string := %s.\n" % cstr(d["t_ignore"]))
    o.append("Definition lex_ignore : string := %s.\n" % cstr(d["lex_ignore"]))
    o.append("Definition lex_literals : string := %s.\n" % cstr(d["lex_literals"]))
    o.append("Definition lex_reflags : Z := %d%%Z.\n" % d["lex_reflags"])
    o.append("Definition lex_rules : list (string * string * string) :=\n  %s.\n" % clist(["(%s, %s, %s)" % (cstr(a), cstr(b), cstr(c)) for a, b, c in d["lex_rules"]]))
    o.append("Definition lex_string_rules : list string := %s.\n" % clist([cstr(x) for x in d["lex_string_rules"]]))
    o.append("Definition reset_attrs : list (string * pyval) :=\n  %s.\n" % clist(["(%s, %s)" % (cstr(k), cpyval(v)) for k, v in d["reset_attrs"]]))
    o.append("Definition modes : list string := %s.\n" % clist([cstr(x) for x in d["modes"]]))
    o.append("Definition own_parser : bool := %s.\nDefinition own_lexer : bool := %s.\n" % ("true" if d["own_parser"] else "false", "true" if d["own_lexer"] else "false"))
    o.append("Definition parse_data_resets : list (string * pyval) :=\n  %s.\n" % clist(["(%s, %s)" % (cstr(k), cpyval(v)) for k, v in d["parse_data_resets"]]))
    if write_if_changed(os.path.join(outdir, "Tokens.v"), "\n".join(o)):
        changed.append("Tokens.v")

    # ---- Regex.v -----------------------------------------------------------------------------
    o = [HEADER, "From Coq Require Import String List.\nFrom SDP Require Import Base.\nImport ListNotations.\nOpen Scope string_scope.\n"]
    o.append("Definition regex_texts : list (string * string) :=\n  %s.\n" % clist(["(%s, %s)" % (cstr(k), cstr(v)) for k, v in sorted(d["regex"].items())]))
    o.append("Definition parser_consts : list (string * list string) :=\n  %s.\n" % clist(["(%s, %s)" % (cstr(k), clist([cstr(x) for x in v])) for k, v in sorted(d["parser_consts"].items())]))
    if write_if_changed(os.path.join(outdir, "RegexText.v"), "\n".join(o)):
        changed.append("RegexText.v")

    # ---- RegexAst.v ------------------------------------------------------------------------
    def cchar(n):
        return "(ascii_of_nat %d)" % n

    def cre(t):
        k = t[0]
        if k == "lit":
            return "RFail" if t[1] > 127 else "(RChar %s)" % cchar(t[1])
        if k == "notlit":
            if t[1] > 127:
                raise TranslateError("negated non-ascii literal")
            return "(RNotChar %s)" % cchar(t[1])
        if k == "any":
            return "RAny"
        if k == "set":
            its = []
            for it in t[2]:
                if it[0] == "c":
                    if it[1] <= 127:
                        its.append("SChar %s" % cchar(it[1]))
                else:
                    if it[2] > 127:
                        raise TranslateError("non-ascii range")
                    its.append("SRange %s %s" % (cchar(it[1]), cchar(it[2])))
            return "(RSet %s %s)" % ("true" if t[1] else "false", clist(its))
        if k == "seq":
            if len(t[1]) == 1:
                return cre(t[1][0])
            return "(RSeq %s)" % clist([cre(x) for x in t[1]])
        if k == "alt":
            return "(RAlt %s)" % clist([cre(x) for x in t[1]])
        if k == "icase":
            return "(RIgnoreCase %s)" % cre(t[1])
        if k == "rep":
            return "(RRepeat %d %s %s %s)" % (t[1], "None" if t[2] is None else "(Some %d)" % t[2], "true" if t[3] else "false", cre(t[4]))
        if k == "ahead":
            return "(RAhead %s %s)" % ("true" if t[1] else "false", cre(t[2]))
        if k == "begin":
            return "RBegin"
        if k == "end":
            return "REnd"
        if k == "boundary":
            return "RBoundary"
        raise TranslateError("regex tree tag %s" % k)

    o = [HEADER, "From Coq Require Import String Ascii List.\nFrom SDP Require Import Base Regex.\nImport ListNotations.\nOpen Scope string_scope.\n"]
    o.append("Definition lex_res : list (string * re) :=\n  [ %s ].\n" % "\n  ; ".join("(%s, %s)" % (cstr(name), cre(d["re_trees"]["lex:" + name])) for name, _, _ in d["lex_rules"]))
    for k in ("equal_without_space", "in_comment", "set_statement", "skip_regex"):
        o.append("Definition re_%s : re :=\n  %s.\n" % (k, cre(d["re_trees"]["parser:" + k])))
    rows = []
    for i, c in enumerate(d["re_calls"]):
        rows.append("(%s, %s, %s, %s)" % (cstr(c[0]), cstr(c[1]), cstr(c[2]), cre(d["re_trees"]["call:%d" % i])))
    o.append("(* every re.sub / re.split call made by parser.py during a run: (function, pattern text, replacement, parsed pattern) *)")
    o.append("Definition re_calls : list (string * string * string * re) :=\n  [ %s ].\n" % "\n  ; ".join(rows))
    if write_if_changed(os.path.join(outdir, "RegexAst.v"), "\n".join(o)):
        changed.append("RegexAst.v")

    # ---- Grammar.v ---------------------------------------------------------------------------
    o = [HEADER, "From Coq Require Import String List ZArith PArith.\nFrom SDP Require Import Base.\nImport ListNotations.\nOpen Scope string_scope.\n"]
    o.append("Definition terminals : list (string * positive) :=\n  %s.\n" % clist(["(%s, %d%%positive)" % (cstr(t), tid[t]) for t in terms]))
    o.append("Definition nonterminals : list (string * positive) :=\n  %s.\n" % clist(["(%s, %d%%positive)" % (cstr(n), nid[n]) for n in nonterms]))
    # production: (lhs name, lhs id, rhs as list of (is_terminal, id), rhs names, func)
    rows = []
    for name, rhs, func in d["productions"]:
        if name == "S'":
            lhs = 0
        else:
            lhs = nid[name]
        syms = []
        for x in rhs:
            if x in tid:
                syms.append("(true, %d%%positive)" % tid[x])
            else:
                syms.append("(false, %d%%positive)" % nid[x])
        rows.append("mkProd %s %d%%N %s %s %s" % (cstr(name), lhs, clist(syms), clist([cstr(x) for x in rhs]), cstr(func)))
    o.append("Definition productions : list production :=\n  [ %s ].\n" % "\n  ; ".join(rows))
    if write_if_changed(os.path.join(outdir, "Grammar.v"), "\n".join(o)):
        changed.append("Grammar.v")

    # ---- Tables.v (fresh) --------------------------------------------------------------------
    def rows_to_coq(tbl, ids):
        rs = []
        for s in sorted(tbl, key=int):
            if not tbl[s]:
                continue   # a state without entries: same look-up behaviour, not written by PLY either
            ent = ["(%d%%positive, (%d)%%Z)" % (ids[t], a) for t, a in sorted(tbl[s], key=lambda x: ids[x[0]])]
            rs.append("(%d%%N, %s)" % (int(s), clist(ent)))
        return "[ " + "\n  ; ".join(rs) + " ]"

    o = [HEADER, "From Coq Require Import List ZArith PArith NArith.\nImport ListNotations.\n"]
    o.append("Definition nstates : N := %d%%N.\n" % d["nstates"])
    o.append("Definition action_rows : list (N * list (positive * Z)) :=\n  %s.\n" % rows_to_coq(d["action"], tid))
    o.append("Definition goto_rows : list (N * list (positive * Z)) :=\n  %s.\n" % rows_to_coq(d["goto"], nid))
    o.append("Definition defaulted : list (N * Z) := %s.\n" % clist(["(%d%%N, (%d)%%Z)" % (s, r) for s, r in d["defaulted"]]))
    if write_if_changed(os.path.join(outdir, "Tables.v"), "\n".join(o)):
        changed.append("Tables.v")

    # ---- Parsetab.v (cached file, raw shape) -------------------------------------------------
    o = [HEADER, "From Coq Require Import String List ZArith PArith NArith.\nFrom SDP Require Import Base.\nImport ListNotations.\nOpen Scope string_scope.\n"]
    if pt is None:
        o.append("Definition pt_present : bool := false.\nDefinition pt_sig_matches : bool := false.\nDefinition pt_tabversion_ok : bool := false.\nDefinition pt_method_ok : bool := false.\n")
        o.append("Definition pt_action_items : list (string * (list Z * list Z)) := [].\nDefinition pt_goto_items : list (string * (list Z * list Z)) := [].\n")
        o.append("Definition pt_productions : list (string * string * N * string) := [].\n")
    else:
        o.append("Definition pt_present : bool := true.\n")
        o.append("Definition pt_sig_matches : bool := %s.\n" % ("true" if sig_matches(pt["_lr_signature"], d) else "false"))
        o.append("Definition pt_tabversion_ok : bool := %s.\n" % ("true" if pt["_tabversion"] == d["tabversion"] else "false"))
        o.append("Definition pt_method_ok : bool := %s.\n" % ("true" if pt["_lr_method"] == "LALR" else "false"))

        def items(dd):
            rs = []
            for k in sorted(dd):
                states, acts = dd[k]
                if len(states) != len(acts):
                    raise TranslateError("parsetab row length mismatch for %s" % k)
                rs.append("(%s, (%s, %s))" % (cstr(k), clist(["(%d)%%Z" % x for x in states]), clist(["(%d)%%Z" % x for x in acts])))
            return "[ " + "\n  ; ".join(rs) + " ]"

        o.append("Definition pt_action_items : list (string * (list Z * list Z)) :=\n  %s.\n" % items(pt["_lr_action_items"]))
        o.append("Definition pt_goto_items : list (string * (list Z * list Z)) :=\n  %s.\n" % items(pt["_lr_goto_items"]))
        prs = []
        for pr in pt["_lr_productions"]:
            # (str, name, len, func, file, line)
            s, name, ln, func = pr[0], pr[1], pr[2], pr[3]
            prs.append("(%s, %s, %d%%N, %s)" % (cstr(s), cstr(name), ln, cstr(func or "")))
        o.append("Definition pt_productions : list (string * string * N * string) :=\n  [ %s ].\n" % "\n  ; ".join(prs))
    # the same productions as PLY would write them, from the fresh grammar
    prs = []
    for name, rhs, func in d["productions"]:
        s = "%s -> %s" % (name, " ".join(rhs) if rhs else "<empty>")
        prs.append("(%s, %s, %d%%N, %s)" % (cstr(s), cstr(name), len(rhs), cstr(func)))
    o.append("Definition fresh_productions : list (string * string * N * string) :=\n  [ %s ].\n" % "\n  ; ".join(prs))
    if write_if_changed(os.path.join(outdir, "Parsetab.v"), "\n".join(o)):
        changed.append("Parsetab.v")

    # ---- Fields.v ----------------------------------------------------------------------------
    o = [HEADER, "From Coq Require Import String List ZArith.\nFrom SDP Require Import Base.\nImport ListNotations.\nOpen Scope string_scope.\n"]
    rows = []
    for m in sorted(d["fields"]):
        fl = []
        for f in d["fields"][m]["fields"]:
            fl.append(
                "mkField %s %s %s %s %s %s %s %s"
                % (
                    cstr(f["name"]),
                    cpyval(f["default"]),
                    "true" if f["exclude_always"] else "false",
                    "true" if f["exclude_if_not_provided"] else "false",
                    "true" if f["exclude_if_empty"] else "false",
                    "true" if f["has_modes"] else "false",
                    clist([cstr(x) for x in f["output_modes"]]),
                    cstr(f["alias"]),
                )
            )
        hk = d["fields"][m]["hooks"]
        rows.append(
            "(%s, (%s,\n    [ %s ]))"
            % (cstr(m), clist(["(%s, %s)" % (cstr(k), cstr(v)) for k, v in sorted(hk.items())]), "\n    ; ".join(fl))
        )
    o.append("Definition mode_fields : list (string * (list (string * string) * list field)) :=\n  [ %s ].\n" % "\n  ; ".join(rows))
    if write_if_changed(os.path.join(outdir, "Fields.v"), "\n".join(o)):
        changed.append("Fields.v")
    return changed, tid, nid


def run_worker(repo, seed):
    root = tempfile.mkdtemp(prefix="sdp_tr_", dir=os.environ.get("VERIF_TMP", "/tmp"))
    try:
        shutil.copytree(os.path.join(repo, "simple_ddl_parser"), os.path.join(root, "simple_ddl_parser"),
                        ignore=shutil.ignore_patterns("__pycache__", "parsetab.py", "parser.out"))
        env = dict(os.environ)
        env["PYTHONPATH"] = root
        env["PYTHONHASHSEED"] = str(seed)
        env["PYTHONDONTWRITEBYTECODE"] = "1"
        r = subprocess.run([sys.executable, os.path.abspath(__file__), "--worker", root], cwd=root, env=env,
                           stdout=subprocess.PIPE, stderr=subprocess.PIPE, timeout=300)
        if r.returncode != 0:
            raise TranslateError("worker (seed %s) failed:\n%s" % (seed, r.stderr.decode()[-3000:]))
        return json.loads(r.stdout.decode())
    finally:
        shutil.rmtree(root, ignore_errors=True)


def main():
    if len(sys.argv) >= 3 and sys.argv[1] == "--worker":
        worker(sys.argv[2])
        return 0
    import argparse
    from concurrent.futures import ThreadPoolExecutor

    ap = argparse.ArgumentParser()
    ap.add_argument("--repo", default="/repo")
    ap.add_argument("--out", default=os.path.join(os.path.dirname(HERE), "coq", "Gen"))
    ap.add_argument("--json", default=None, help="also write the merged dump here")
    a = ap.parse_args()
    with ThreadPoolExecutor(2) as ex:
        f0 = ex.submit(run_worker, a.repo, 0)
        f1 = ex.submit(run_worker, a.repo, 1)
        d0, d1 = f0.result(), f1.result()
    seed_independent = json.dumps(d0, sort_keys=True) == json.dumps(d1, sort_keys=True)
    if not seed_independent:
        diff = [k for k in d0 if json.dumps(d0[k], sort_keys=True) != json.dumps(d1.get(k), sort_keys=True)]
        print("SEED-DEPENDENT: " + ",".join(diff))
    pt = read_parsetab(os.path.join(a.repo, "simple_ddl_parser", "parsetab.py"))
    changed, tid, nid = emit(d0, pt, a.out)
    meta = {
        "seed_independent": seed_independent,
        "changed": changed,
        "n_productions": len(d0["productions"]),
        "n_states": d0["nstates"],
        "n_actions": sum(len(r) for r in d0["action"].values()),
        "n_gotos": sum(len(r) for r in d0["goto"].values()),
        "parsetab_present": pt is not None,
        "parsetab_sig_matches": bool(pt and sig_matches(pt["_lr_signature"], d0)),
        "digest": hashlib.sha256(json.dumps(d0, sort_keys=True).encode()).hexdigest(),
    }
    if a.json:
        d0["_meta"] = meta
        d0["_tid"] = tid
        d0["_nid"] = nid
        with open(a.json, "w") as f:
            json.dump(d0, f)
    print(json.dumps(meta))
    return 0 if seed_independent else 3


if __name__ == "__main__":
    try:
        sys.exit(main())
    except TranslateError as e:
        print("TRANSLATE-ERROR: %s" % e)
        sys.exit(2)
